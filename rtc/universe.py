"""The bounded universe of the run-time-contract tier (engine B): small planar maps, traces, configurations.
Everything is a deterministic function of the seed.  Bounded, never counted as proved."""
import math
import random
import logging

GRID = [0, 0.5, 1, 1.5, 2, 2.5, 3, 3.5, 4]


def quiet():
    logging.getLogger("be.kuleuven.cs.dtai.mapmatching").setLevel(logging.ERROR)


def labels(n, kind):
    if kind == 'int':
        return list(range(1, n + 1))
    if kind == 'int0':
        return list(range(0, n))            # includes the label 0
    return [chr(ord('A') + i) for i in range(n)]


def gen_graph(rnd, n=None, family=None, label_kind=None, allow_dup=True):
    """graph: {label: ((y, x), [neighbour labels])} as InMemMap takes it."""
    n = n or rnd.choice([2, 3, 3, 4, 4, 5, 5])
    family = family or rnd.choice(['chain', 'oneway', 'cycle', 'star', 'grid', 'random', 'random', 'line'])
    label_kind = label_kind or rnd.choice(['str', 'str', 'int'])
    if label_kind == 'int' and n % 2 == 0:
        label_kind = 'int0'
    L = labels(n, label_kind)
    if family == 'line':
        y = rnd.choice(GRID)
        xs = sorted(rnd.sample(GRID, n))
        pts = [(y, x) for x in xs]
        if rnd.random() < 0.5:
            pts = [(x, y) for (y, x) in pts]
    else:
        pts = []
        while len(pts) < n:
            p = (rnd.choice(GRID), rnd.choice(GRID))
            if p in pts and not (allow_dup and rnd.random() < 0.1):
                continue
            pts.append(p)
    g = {l: (pts[i], []) for i, l in enumerate(L)}

    def add(a, b, both=True):
        if b not in g[a][1]:
            g[a][1].append(b)
        if both and a not in g[b][1]:
            g[b][1].append(a)
    if family == 'merge':
        # one-way feeders merging into a common one-way continuation (two predecessors for the same successor edge)
        k = max(1, n - 2)
        hub = L[k] if k < n else L[-1]
        for a in L[:k]:
            add(a, hub, both=False)
        for a, b in zip(L[k:], L[k + 1:]):
            add(a, b, both=rnd.random() < 0.3)
    elif family in ('chain', 'line'):
        for a, b in zip(L, L[1:]):
            add(a, b)
    elif family == 'oneway':
        for a, b in zip(L, L[1:]):
            add(a, b, both=rnd.random() < 0.4)
    elif family == 'cycle':
        for a, b in zip(L, L[1:] + L[:1]):
            add(a, b, both=rnd.random() < 0.7)
    elif family == 'star':
        for b in L[1:]:
            add(L[0], b)
    elif family == 'grid':
        for i, a in enumerate(L):
            for b in L[i + 1:]:
                pa, pb = g[a][0], g[b][0]
                if abs(pa[0] - pb[0]) + abs(pa[1] - pb[1]) <= 1.5:
                    add(a, b)
        for a, b in zip(L, L[1:]):
            add(a, b)
    else:
        for a, b in zip(L, L[1:]):
            add(a, b, both=rnd.random() < 0.7)
        for _ in range(rnd.randint(0, n)):
            a, b = rnd.sample(L, 2)
            add(a, b, both=rnd.random() < 0.6)
    if rnd.random() < 0.1:
        a = rnd.choice(L)
        g[a][1].append(a)       # self-listed neighbour
    return g


def edges_of(g):
    return [(a, b) for a, (pa, nb) in g.items() for b in nb if b != a and b in g]


def gen_trace(rnd, g, n=None, noise=None, kind=None):
    n = n or rnd.choice([1, 2, 3, 3, 4, 4, 5])
    kind = kind or rnd.choice(['walk', 'walk', 'walk', 'random', 'onroad', 'outlier', 'sparse'])
    noise = rnd.choice([0.0, 0.1, 0.25, 0.5]) if noise is None else noise
    E = edges_of(g)
    pts = []
    if kind == 'random' or not E:
        return [(rnd.choice(GRID) + rnd.choice([0, 0.25]), rnd.choice(GRID) + rnd.choice([0, 0.25])) for _ in range(n)]
    # walk along the graph
    a, b = rnd.choice(E)
    t = rnd.choice([0, 0.25, 0.5, 0.75])
    step = rnd.choice([0.25, 0.5, 0.75]) if kind != 'sparse' else rnd.choice([1.5, 2.5])
    for i in range(n):
        pa, pb = g[a][0], g[b][0]
        y, x = pa[0] + t * (pb[0] - pa[0]), pa[1] + t * (pb[1] - pa[1])
        if kind == 'onroad':
            pts.append((y, x))
        else:
            q = 0.25
            pts.append((round((y + rnd.uniform(-noise, noise)) / q) * q, round((x + rnd.uniform(-noise, noise)) / q) * q))
        L = math.hypot(pb[0] - pa[0], pb[1] - pa[1]) or 1.0
        t += step / L
        guard = 0
        while t > 1 and guard < 6:
            guard += 1
            nxt = [c for c in g[b][1] if c != b and c in g]
            if not nxt:
                t = 1
                break
            c = rnd.choice(nxt)
            t = (t - 1) * L
            a, b = b, c
            pa, pb = g[a][0], g[b][0]
            L = math.hypot(pb[0] - pa[0], pb[1] - pa[1]) or 1.0
            t = t / L
        t = min(t, 1.0)
    if kind == 'outlier' and n >= 3:
        k = rnd.randrange(1, n)
        pts[k] = (pts[k][0] + rnd.choice([-3, 3, 6]), pts[k][1] + rnd.choice([-3, 3, 6]))
    if rnd.random() < 0.15 and n >= 2:
        k = rnd.randrange(1, n)
        pts[k] = pts[k - 1]      # repeated observation
    return pts


def gen_cfg(rnd, family=None, ne=None, width=None, only_edges=None, cutoffs=True, avoid_goingback=None):
    family = family or rnd.choice(['simple', 'distance'])
    cfg = {'family': family,
           'obs_noise': rnd.choice([0.09, 0.5, 0.55, 1, 2]),
           'non_emitting_states': rnd.random() < 0.5 if ne is None else ne,
           'max_lattice_width': (rnd.choice([None, None, 1, 2, 3]) if width is None else (None if width == 0 else width)),
           'only_edges': True if family == 'distance' else (rnd.random() < 0.6 if only_edges is None else only_edges),
           'avoid_goingback': rnd.random() < 0.5 if avoid_goingback is None else avoid_goingback}
    if rnd.random() < 0.4:
        cfg['obs_noise_ne'] = rnd.choice([0.5, 1, 2, 4])
    if cutoffs:
        cfg['max_dist'] = rnd.choice([None, 1, 1.5, 3])
        cfg['max_dist_init'] = rnd.choice([None, None, 1, 2])
        cfg['min_prob_norm'] = rnd.choice([None, None, 1e-3, 0.1, 0.5])
    else:
        cfg['max_dist'] = None
        cfg['max_dist_init'] = None
        cfg['min_prob_norm'] = None
    if family == 'distance' and rnd.random() < 0.3:
        cfg['dist_noise'] = rnd.choice([0.5, 1, 2])
    # calling convention (one configuration in three, a function of the configuration itself): obs_noise is the first parameter
    # after the map and may be given positionally, Matcher(map, 0.5, max_dist=...), as well as by keyword
    import zlib
    cfg['_positional'] = zlib.crc32(repr(sorted(cfg.items())).encode()) % 3 == 0
    return cfg


def make_map(g, name='m', use_latlon=False, linked=None):
    from leuvenmapmatching.map.inmem import InMemMap
    import copy
    return InMemMap(name, use_latlon=use_latlon, use_rtree=False, graph=copy.deepcopy(g),
                    linked_edges=copy.deepcopy(linked) if linked else None)


def gen_linked(case, p=0.3):
    """for some cases: pairs of directed edges declared as linked parallel roads (InMemMap(linked_edges=...)): the map then
    also offers the move from an edge to the edges linked to it.  Drawn from its own stream (the case itself is unchanged)."""
    import zlib
    r2 = random.Random(zlib.crc32(repr(('linked', sorted(map(str, case['graph'])), case['trace'])).encode()))
    if r2.random() >= p:
        return None
    E = edges_of(case['graph'])
    if len(E) < 2:
        return None
    linked = {}
    for _ in range(r2.randint(1, 3)):
        a, b = r2.sample(E, 2)
        if a[0] in b or a[1] in b:
            continue            # share a node: not a parallel road
        linked.setdefault(a, set()).add(b)
        if r2.random() < 0.7:
            linked.setdefault(b, set()).add(a)
    return linked or None


def make_matcher(mp, cfg, warmup=None):
    """warmup: another trace that is matched first on the same matcher object (a matcher may be reused: `match` without
    `expand` starts afresh, so nothing of the earlier trace may show in the results of the next one)"""
    from leuvenmapmatching.matcher.simple import SimpleMatcher
    from leuvenmapmatching.matcher.distance import DistanceMatcher
    kw = {k: v for k, v in cfg.items() if k != 'family' and v is not None or k in ('max_lattice_width',)}
    kw = {k: v for k, v in kw.items() if not (v is None and k != 'max_lattice_width') and not k.startswith('_')}
    cls = SimpleMatcher if cfg['family'] == 'simple' else DistanceMatcher
    if cfg.get('_positional') and 'obs_noise' in kw:
        mt = cls(mp, kw.pop('obs_noise'), **kw)
    else:
        mt = cls(mp, **kw)
    if warmup:
        try:
            mt.match(list(warmup))
        except Exception:
            pass            # totality is C17's business
    return mt


def gen_warmup(case):
    """for one case in five: a second trace on the same map (deterministic in the case, drawn from its own stream so that
    the case itself is unchanged)"""
    import zlib
    r2 = random.Random(zlib.crc32(repr((sorted(map(str, case['graph'])), case['trace'])).encode()))
    if r2.random() >= 0.2:
        return None
    n = max(len(case['trace']), r2.choice([2, 3, 5]))
    return gen_trace(r2, case['graph'], n=n)


def gen_laps_case(rnd):
    """a one-way block driven around more than once: the best path revisits states with other states in between"""
    n = rnd.choice([3, 4])
    L = labels(n, rnd.choice(['str', 'int']))
    pts = [(0, 0), (0, 2), (2, 2), (2, 0)][:n] if n == 4 else [(0, 0), (0, 2), (2, 1)]
    g = {l: (pts[i], [L[(i + 1) % n]]) for i, l in enumerate(L)}
    if rnd.random() < 0.5:
        g[L[0]][1].append(L[-1])
    per = []
    for i in range(n):
        a, b = pts[i], pts[(i + 1) % n]
        per.append(((a[0] + b[0]) / 2, (a[1] + b[1]) / 2))
    k = rnd.randint(n + 1, 2 * n + 1)
    start = rnd.randrange(n)
    tr = [per[(start + j) % n] for j in range(k)]
    return g, tr


def gen_merge_linked_case(rnd):
    """two one-way feeders merging into one node, a separate parallel road, and only ONE feeder linked to the parallel road:
    the moves the map offers from two edges that end in the same node differ"""
    L = labels(7, rnd.choice(['str', 'int']))
    a1, a2, b, f, c, d, g_ = L
    ys = rnd.sample([0, 1, 1.5, 2, 3], 2)
    pts = {a1: (ys[0], 0), b: (ys[0], 2), f: (ys[0], 4), c: (ys[1], 0), d: (ys[1], 2), g_: (ys[1], 4),
           a2: (ys[0] + rnd.choice([-1.5, -1, 1, 1.5]), rnd.choice([0.5, 1]))}
    order = [a1, a2, b, f, c, d, g_]
    rnd.shuffle(order)
    nb = {a1: [b], a2: [b], b: [f], f: [], c: [d], d: [g_], g_: []}
    g = {k: (pts[k], nb[k]) for k in order}
    lk = rnd.choice([a1, a2])
    linked = {(lk, b): {(c, d)}}
    if rnd.random() < 0.5:
        linked[(c, d)] = {(lk, b)}

    def on(p, q, t, off=0.0):
        return (p[0] + t * (q[0] - p[0]) + off, p[1] + t * (q[1] - p[1]))
    other = a2 if lk == a1 else a1
    # the first fixes may lie on either feeder (the order of the candidates in a column follows the earlier fixes)
    if rnd.random() < 0.7:
        # first fix between the feeders, a little closer to one of them; second fix on one of them
        t0, t1 = rnd.choice([0.3, 0.4, 0.5]), rnd.choice([0.6, 0.7])
        near, far = rnd.choice([(lk, other), (other, lk)])
        pn, pf = on(pts[near], pts[b], t0), on(pts[far], pts[b], t0)
        w_ = rnd.choice([0.4, 0.45])
        tr = [(pn[0] + w_ * (pf[0] - pn[0]), pn[1] + w_ * (pf[1] - pn[1])), on(pts[rnd.choice([lk, other])], pts[b], t1)]
    else:
        tr = [on(pts[rnd.choice([lk, other])], pts[b], rnd.choice([0.25, 0.5]), rnd.choice([0, 0.1, -0.1])),
              on(pts[rnd.choice([lk, other])], pts[b], rnd.choice([0.6, 0.8]), rnd.choice([0, 0.1, -0.1]))]
    tr.append(on(pts[c], pts[d], rnd.choice([0.7, 0.9]), rnd.choice([0, 0.05])) if rnd.random() < 0.7 else on(pts[b], pts[f], 0.3))
    if rnd.random() < 0.5:
        tr.append(on(pts[d], pts[g_], 0.4))
    cfg = gen_cfg(rnd, only_edges=True, cutoffs=rnd.random() < 0.3)
    cfg['obs_noise'] = rnd.choice([0.5, 1, 2])
    return {'graph': g, 'trace': tr, 'cfg': cfg, 'linked': linked}


def gen_gap_case(rnd):
    """a road with a missing link (two pieces on one line, as in the library's own test of continue_with_distance): the match
    stops at the gap, continue_with_distance() jumps it, and one fix after the gap lies off the road by more or less than
    max_dist - the jump radius is a radius for finding edges, the cut-off of the observations stays max_dist"""
    L = labels(6, rnd.choice(['str', 'int']))
    ys = [0, 2, 4, 6.5, 8.5, 10.5]
    x0 = rnd.choice([0, 1.5])
    g = {L[i]: ((x0, ys[i]), []) for i in range(6)}
    for i, j in ((0, 1), (1, 2), (3, 4), (4, 5)):
        g[L[i]][1].append(L[j])
        if rnd.random() < 0.7:
            g[L[j]][1].append(L[i])
    md = rnd.choice([1.0, 1.5])
    off = rnd.choice([0.25, 0.8 * md, 1.2 * md, 1.7 * md, 2.5 * md])
    tr = [(x0 + 0.25, 0.5), (x0 + 0.25, 1.75), (x0 + 0.25, 3.25), (x0 + 0.25, 3.9), (x0 + off, 7.0), (x0 + 0.25, 8.0), (x0 + 0.25, 9.5)]
    cfg = gen_cfg(rnd, only_edges=True, cutoffs=False)
    cfg['max_dist'] = md
    cfg['obs_noise'] = rnd.choice([0.5, 1, 2])
    cfg['max_lattice_width'] = rnd.choice([None, None, 3])
    return {'graph': g, 'trace': tr, 'cfg': cfg}


def gen_grid_case(rnd):
    """a 3x3 or 4x4 street grid (two-way streets, a few one-way) and a SPARSE trace: consecutive fixes are two or three blocks
    apart, so that chains of non-emitting states of depth >= 2 are needed; a small lattice width"""
    k = rnd.choice([3, 3, 4])
    xs = [0, 2, 4] if k == 3 else [0, 1.5, 3, 4]
    L = labels(k * k, rnd.choice(['str', 'int']))
    idx = lambda r, c: L[r * k + c]
    jit = lambda: rnd.choice([0, 0, 0.25, -0.25]) if rnd.random() < 0.5 else 0
    pts = {idx(r, c): (min(4.5, max(-0.5, xs[r] + jit())), min(4.5, max(-0.5, xs[c] + jit()))) for r in range(k) for c in range(k)}
    g = {l: (pts[l], []) for l in L}
    for r in range(k):
        for c in range(k):
            for (r2, c2) in ((r, c + 1), (r + 1, c)):
                if r2 < k and c2 < k:
                    a, b = idx(r, c), idx(r2, c2)
                    one = rnd.random() < 0.2
                    g[a][1].append(b)
                    if not one:
                        g[b][1].append(a)
    n = rnd.choice([2, 3, 3, 4])
    # walk along the grid, one fix every 2-3 blocks
    cur = rnd.choice(L)
    tr = []
    for i in range(n):
        p = g[cur][0]
        tr.append((p[0] + rnd.choice([0, 0.25, -0.25]), p[1] + rnd.choice([0, 0.25, -0.25])))
        for _ in range(rnd.choice([2, 2, 3])):
            nb = [b for b in g[cur][1]]
            if not nb:
                break
            cur = rnd.choice(nb)
    cfg = gen_cfg(rnd, ne=True, width=rnd.choice([1, 2, 2, 3]), cutoffs=rnd.random() < 0.4)
    cfg['obs_noise'] = rnd.choice([0.5, 1, 2])
    if cfg.get('max_dist'):
        cfg['max_dist'] = 3
    return {'graph': g, 'trace': tr, 'cfg': cfg}


def add_times(case):
    """1 case in 5 carries time stamps as a third component of every observation (x, y, t): the geometry of the model is
    that of the first two components only.  Drawn from a generator derived from the trace itself, so that the other draws
    of a case are unaffected."""
    import zlib
    r = random.Random(zlib.crc32(repr(case['trace']).encode()))
    if r.random() < 0.2 and all(len(p) == 2 for p in case['trace']):
        t0, dt = r.choice([(0.0, 5.0), (1.6e9, 1.0), (0.0, 0.5), (100.0, 60.0)])
        case['trace'] = [(p[0], p[1], t0 + i * dt) for i, p in enumerate(case['trace'])]
        case['timed'] = True
    return case


def gen_case(rnd, **kw):
    return add_times(_gen_case(rnd, **kw))


def _gen_case(rnd, **kw):
    if kw.get('grid'):
        return gen_grid_case(rnd)
    if kw.get('laps'):
        g, tr = gen_laps_case(rnd)
        cfg = gen_cfg(rnd, family=kw.get('family'), ne=kw.get('ne'), width=kw.get('width'), only_edges=kw.get('only_edges'),
                      cutoffs=False, avoid_goingback=kw.get('avoid_goingback'))
        cfg['obs_noise'] = 0.5
        cfg['max_dist'] = 1.5
        return {'graph': g, 'trace': tr, 'cfg': cfg}
    g = gen_graph(rnd, n=kw.get('n'), family=kw.get('graph_family'), label_kind=kw.get('label_kind'))
    tr = gen_trace(rnd, g, n=kw.get('trace_len'), kind=kw.get('trace_kind'))
    cfg = gen_cfg(rnd, family=kw.get('family'), ne=kw.get('ne'), width=kw.get('width'), only_edges=kw.get('only_edges'),
                  cutoffs=kw.get('cutoffs', True), avoid_goingback=kw.get('avoid_goingback'))
    case = {'graph': g, 'trace': tr, 'cfg': cfg}
    w = gen_warmup(case)
    if w:
        case['warmup'] = w
    return case


def best_final(matcher, idx=None):
    """best (logprob) live emitting entry in column idx (default: last matched)"""
    if not matcher.lattice_best:
        return None
    return matcher.lattice_best[-1]


def canon(matcher, res):
    states, idx = res
    lb = matcher.lattice_best or []
    # canonical: best EMITTING log-probability in the last matched column
    best = None
    if states:
        col = matcher.lattice[idx]
        for m in col.values(0):
            if not m.stop and (best is None or m.logprob > best):
                best = m.logprob
    near = False
    if matcher.lattice:
        for col in matcher.lattice.values():
            for lay in col.o:
                v = sorted(m.logprob for m in lay.values() if not m.stop)
                if any(abs(x - y) <= 1e-9 * (1 + abs(x)) for x, y in zip(v, v[1:])):
                    near = True
    return {'idx': idx, 'states': list(states) if states is not None else None, 'best': best, 'near_tie': near,
            'keys': [m.key for m in lb], 'lp': [m.logprob for m in lb]}


def case_repr(case):
    r = {'graph': {str(k): [list(v[0]), list(map(str, v[1]))] for k, v in case['graph'].items()},
         'trace': [list(p) for p in case['trace']], 'cfg': case['cfg']}
    if case.get('warmup'):
        r['matched_before_on_the_same_matcher'] = [list(p) for p in case['warmup']]
    for k in case:
        if k not in ('graph', 'trace', 'cfg', 'warmup', 'timed') and isinstance(case[k], (str, int, float, bool)):
            r[k] = case[k]
    return r
