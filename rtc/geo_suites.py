"""Bounded suites for the geodesic properties C14, C15, C20."""
import copy
import math
import random

from rtc import geo_ref as G
from rtc import universe as U

ANCHORS = [(0.0, 0.0), (35.0, 4.0), (-35.0, 120.0), (59.0, -75.0), (-59.0, 10.0), (50.9, 4.7), (-23.5, -46.6), (69.65, 18.95), (-54.8, -68.3)]


def _rnd(seed, salt):
    return random.Random(f"{salt}:{seed}")


def close(a, b, rel, abs_):
    return abs(a - b) <= abs_ + rel * max(abs(a), abs(b))


def case_C14(seed):
    from leuvenmapmatching.util import dist_latlon as dl
    rnd = _rnd(seed, 'C14')
    lat0, lon0 = rnd.choice(ANCHORS)
    L = 10 ** rnd.uniform(-1, math.log10(5000))            # segment length 0.1 m .. 5 km
    b1 = rnd.uniform(0, 360)
    s1 = (lat0 + rnd.uniform(-0.01, 0.01), lon0 + rnd.uniform(-0.01, 0.01))
    s2 = G.destination(s1, b1, L)
    # query point within a few segment lengths
    p = G.destination(G.destination(s1, b1, rnd.uniform(-1.5, 2.5) * L), rnd.uniform(0, 360), rnd.uniform(0, 3) * L)
    viol = []
    # 'centimetres at street scale': 5 cm absolute (the cross-track / along-track formulas lose ~3 cm to acos/asin
    # cancellation on decimetre segments, observed) + 1e-6 relative
    # (acos near 1 resolves angles only to sqrt(2*eps) ~ 1.5e-8 rad ~ 9.5 cm on the sphere: the along-track term carries that)
    tol_d = 0.12 + 1e-6 * L
    info = {'s1': s1, 's2': s2, 'p': p, 'L': L}
    # --- distance = great-circle distance on the 6371 km sphere
    d = dl.distance(s1, s2)
    if not close(d, G.gc_distance(s1, s2), 1e-9, 1e-6):
        viol.append(('C14:distance-is-not-the-great-circle-distance', f"distance({s1},{s2}) = {d}, reference {G.gc_distance(s1, s2)}", info))
    # --- destination inverts distance-and-bearing
    brg = math.degrees(dl.bearing_radians(*map(math.radians, (s1[0], s1[1], s2[0], s2[1]))))
    la, lo = dl.destination_radians(math.radians(s1[0]), math.radians(s1[1]), math.radians(brg), d)
    back = (math.degrees(la), math.degrees(lo))
    if G.gc_distance(back, s2) > 1e-3 + 1e-9 * L:
        viol.append(('C14:destination-does-not-invert-distance-and-bearing', f"destination(s1, bearing, distance) is {G.gc_distance(back, s2)} m away from s2", info))
    # --- point to segment
    dist, pi, ti = dl.distance_point_to_segment(p, s1, s2)
    rd, rpi, rti = G.nearest_on_arc(p, s1, s2)
    nontriv = 0.0 < rti < 1.0 and rd > 1e-3
    if not close(dist, rd, 1e-6, tol_d):
        viol.append(('C14:point-to-segment-distance', f"distance {dist} vs spherical reference {rd}", dict(info, got=(dist, pi, ti), ref=(rd, rpi, rti))))
    elif G.gc_distance(pi, rpi) > tol_d + 1e-6 * rd:
        viol.append(('C14:point-to-segment-projection', f"projection {pi} is {G.gc_distance(pi, rpi)} m from the reference {rpi}", dict(info, got=(dist, pi, ti), ref=(rd, rpi, rti))))
    elif abs(ti - rti) * L > tol_d + 1e-6 * L:
        viol.append(('C14:point-to-segment-relative-position', f"relative position {ti} vs reference {rti}", dict(info, got=(dist, pi, ti), ref=(rd, rpi, rti))))
    # --- constrain=False: foot of the perpendicular on the whole great circle, signed relative position (negative before s1)
    du, piu, tiu = dl.distance_point_to_segment(p, s1, s2, constrain=False)
    rdu, rpiu, rtiu = G.foot_on_great_circle(p, s1, s2)
    if not viol and L > 1.0 and (not close(du, rdu, 1e-6, tol_d) or G.gc_distance(piu, rpiu) > tol_d + 1e-6 * abs(rtiu) * L or abs(tiu - rtiu) * L > tol_d + 1e-6 * L * (1 + abs(rtiu))):
        viol.append(('C14:unconstrained-point-to-line', f"constrain=False: {(du, piu, tiu)} vs spherical reference {(rdu, rpiu, rtiu)}", info))
    # --- directed probe: a kilometre-scale segment and a query point whose foot lies decimetres from the FIRST end point
    if not viol and seed % 3 == 0:
        Lk = rnd.uniform(1000.0, 8000.0)
        e2 = G.destination(s1, b1, Lk)
        foot = G.destination(s1, b1, rnd.choice([0.25, 0.4, 0.6, 1.5]))
        pq = G.destination(foot, b1 + rnd.choice([90.0, -90.0]), rnd.uniform(0.5, 20.0))
        if seed % 6 == 3 and abs(s1[0]) < 60:
            # regional scale: a link of 20 .. 150 km (motorway, rail, ferry), the query kilometres off, its foot deep inside
            Lk = rnd.uniform(20000.0, 150000.0)
            e2 = G.destination(s1, b1, Lk)
            foot = G.destination(s1, b1, rnd.uniform(0.2, 0.9) * Lk)
            pq = G.destination(foot, rnd.uniform(0.0, 360.0), rnd.uniform(1000.0, 40000.0))
        dk, pik, tik = dl.distance_point_to_segment(pq, s1, e2)
        rdk, rpik, rtik = G.nearest_on_arc(pq, s1, e2)
        d2k, pi2k, ti2k = dl.distance_point_to_segment(pq, e2, s1)
        if not close(dk, rdk, 1e-6, tol_d) or G.gc_distance(pik, rpik) > tol_d + 1e-6 * Lk or abs(tik - rtik) * Lk > tol_d + 1e-6 * Lk:
            viol.append(('C14:point-to-segment-on-a-long-segment(directed probe)',
                         f"L = {Lk} m: {(dk, pik, tik)} vs spherical reference {(rdk, rpik, rtik)}", {'s1': s1, 's2': e2, 'p': pq, 'L': Lk}))
        elif G.gc_distance(pik, pi2k) > 2 * tol_d or abs(tik - (1 - ti2k)) * Lk > 2 * tol_d + 2e-6 * Lk:
            viol.append(('C14:not-invariant-under-end-point-swap', f"L = {Lk} m: (s1,s2): {(dk, pik, tik)}; (s2,s1): {(d2k, pi2k, ti2k)}", {'s1': s1, 's2': e2, 'p': pq, 'L': Lk}))
    # --- project() is the projection part of distance_point_to_segment (same clamping to the segment)
    ppi, pti = dl.project(s1, s2, p)
    if not viol and (G.gc_distance(ppi, pi) > 1e-6 or abs(pti - ti) > 1e-9):
        viol.append(('C14:project-differs-from-point-to-segment', f"project(s1, s2, p) = {(ppi, pti)}, distance_point_to_segment gives {(pi, ti)}", info))
    # --- zero-length segment: the segment is its end point (in degrees), distance is the great-circle distance to it
    dz, piz, tiz = dl.distance_point_to_segment(p, s1, s1)
    if not viol and (not close(dz, G.gc_distance(p, s1), 1e-9, 1e-6) or G.gc_distance(piz, s1) > 1e-6 or tiz not in (0, 0.0)):
        viol.append(('C14:zero-length-segment', f"distance_point_to_segment(p, s1, s1) = {(dz, piz, tiz)}, expected distance {G.gc_distance(p, s1)} at {s1}", info))
    # --- invariance under swapping the end points
    d2, pi2, ti2 = dl.distance_point_to_segment(p, s2, s1)
    if not viol and (not close(dist, d2, 1e-6, tol_d) or G.gc_distance(pi, pi2) > 2 * tol_d or abs(ti - (1 - ti2)) * L > 2 * tol_d + 2e-6 * L):
        viol.append(('C14:not-invariant-under-end-point-swap', f"(s1,s2): {dist, pi, ti}; (s2,s1): {d2, pi2, ti2}", info))
    # --- segment to segment
    t1 = G.destination(s1, rnd.uniform(0, 360), rnd.uniform(0, 2) * L)
    t2 = G.destination(t1, rnd.uniform(0, 360), rnd.uniform(0.2, 2) * L)
    if seed % 4 == 2:
        # connected segments (consecutive edges of a road, an observation segment that starts in a node): one end point is
        # shared EXACTLY, in any of the four combinations
        far = G.destination(s1 if seed % 8 == 2 else s2, rnd.uniform(0, 360), rnd.uniform(0.2, 2) * L)
        t1, t2 = [(s2, far), (far, s1), (s1, far), (far, s2)][(seed // 8) % 4]
    dss, pf, pt, uf, ut = dl.distance_segment_to_segment(s1, s2, t1, t2)
    rss = G.seg_seg_distance(s1, s2, t1, t2)
    scale = max(L, G.gc_distance(s1, t1), G.gc_distance(s1, t2))
    # the routine works in a local planar frame anchored at the first end point: centimetres at street scale
    # (12 cm + the distortion of that frame: bearings are taken against the local meridian of each anchor, and meridians
    #  converge by dlon*sin(lat) = (dx/R)*tan(lat), which rotates the second segment by that angle; second order in scale/R)
    tanl = math.tan(math.radians(min(89.0, max(abs(q[0]) for q in (s1, s2, t1, t2)))))
    tol_ss = 0.12 + 2e-6 * scale + 2.0 * max(1.0, tanl) * (scale / G.R) * scale
    if not viol and abs(dss - rss) > tol_ss:
        viol.append(('C14:segment-to-segment-distance', f"distance {dss} vs spherical reference {rss} (tolerance {tol_ss})", dict(info, t1=t1, t2=t2)))
    elif not viol and (not (0 <= uf <= 1 and 0 <= ut <= 1) or abs(G.gc_distance(pf, pt) - dss) > tol_ss):
        viol.append(('C14:segment-to-segment-points-do-not-realise-the-distance', f"|pf-pt| = {G.gc_distance(pf, pt)}, reported {dss}, uf {uf}, ut {ut}", dict(info, t1=t1, t2=t2)))
    elif not viol and (G.gc_distance(pf, G.point_on_arc(s1, s2, uf)) > tol_ss or G.gc_distance(pt, G.point_on_arc(t1, t2, ut)) > tol_ss):
        # the reported points lie on their segments AT the reported relative positions
        viol.append(('C14:segment-to-segment-points-are-not-at-the-reported-relative-positions',
                     f"pf {pf} vs point at uf={uf}: {G.point_on_arc(s1, s2, uf)}; pt {pt} vs point at ut={ut}: {G.point_on_arc(t1, t2, ut)}", dict(info, t1=t1, t2=t2)))
    # --- box contains the disc
    c = s1
    rad = rnd.choice([1.0, 50.0, 100.0, 2000.0, 10000.0, 25000.0, 50000.0, 100000.0])
    box = dl.box_around_point(c, rad)
    # directed probes: the four cardinal points and the points of the disc with the extreme longitude (they lie poleward of
    # the centre's parallel: lat_e = asin(sin lat / cos d), bearing = atan2(+-..)), just inside the rim
    dang = rad / G.R
    late = math.degrees(math.asin(max(-1.0, min(1.0, math.sin(math.radians(c[0])) / math.cos(dang))))) if dang < math.pi / 2 else c[0]
    dlon = math.degrees(math.asin(min(1.0, math.sin(dang) / math.cos(math.radians(c[0])))))
    probes = [G.destination(c, b, rad * 0.9999999) for b in (0.0, 90.0, 180.0, 270.0)]
    for sgn in (1.0, -1.0):
        e = (late, c[1] + sgn * dlon)
        # pull the extreme point 1e-7 of the radius towards the centre so that it is strictly inside the disc
        probes.append((c[0] + (e[0] - c[0]) * (1 - 1e-7), c[1] + (e[1] - c[1]) * (1 - 1e-7)))
    for q in probes:
        if G.gc_distance(c, q) <= rad and not (box[0] <= q[0] <= box[2] and box[1] <= q[1] <= box[3]):
            viol.append(('C14:box-does-not-contain-the-disc', f"point {q} at {G.gc_distance(c, q)} <= {rad} m from {c} is outside box {box}", {'c': c, 'radius': rad, 'q': q, 'box': box}))
            break
    for k in range(72):
        q = G.destination(c, k * 5.0 + rnd.uniform(0, 5), rad * rnd.choice([0.999999, 0.9, 0.5]))
        if not (box[0] <= q[0] <= box[2] and box[1] <= q[1] <= box[3]):
            viol.append(('C14:box-does-not-contain-the-disc', f"point {q} at <= {rad} m from {c} is outside box {box}", {'c': c, 'radius': rad, 'q': q, 'box': box}))
            break
    return {'nontrivial': nontriv, 'violations': viol[:1], 'sample': info}


def case_C20(seed):
    from leuvenmapmatching.util import dist_latlon as dl
    from leuvenmapmatching.util import dist_euclidean as de
    rnd = _rnd(seed, 'C20')
    viol = []
    n = rnd.choice([1, 2, 3, 4, 6])
    nontriv = False
    # ---------------- planar
    pts = [(rnd.uniform(-50, 50), rnd.uniform(-50, 50)) for _ in range(n)]
    if n > 2 and rnd.random() < 0.3:
        pts[1] = pts[0]
    lens = [math.hypot(a[0] - b[0], a[1] - b[1]) for a, b in zip(pts, pts[1:])] or [1.0]
    dd = max(lens) * 10 ** rnd.uniform(-3, 1) if max(lens) > 0 else 1.0
    out = de.interpolate_path(pts, dd)
    bad = check_interp(pts, out, dd, lambda a, b: math.hypot(a[0] - b[0], a[1] - b[1]),
                       lambda q, a, b: planar_off_segment(q, a, b), 1e-9)
    if bad:
        viol.append(('C20:planar-' + bad[0], f"interpolate_path({pts}, {dd}): {bad[1]}", {'path': pts, 'dd': dd}))
    if len(out) > len(pts):
        nontriv = True
    if not viol and seed % 3 == 0:
        # the same trace as the caller may hold it: a float array of shape (n, 2), a list of float arrays, lists instead of
        # tuples.  Checked against the copy taken BEFORE the call (a routine that moves the caller's points moves the originals)
        import numpy as np
        form = ['ndarray', 'list-of-arrays', 'list-of-lists'][(seed // 3) % 3]
        arg = np.array(pts, dtype=float) if form == 'ndarray' else ([np.array(q, dtype=float) for q in pts] if form == 'list-of-arrays' else [list(q) for q in pts])
        try:
            out2 = [tuple(float(c) for c in q[:2]) for q in de.interpolate_path(arg, dd)]
            bad2 = check_interp(pts, out2, dd, lambda a, b: math.hypot(a[0] - b[0], a[1] - b[1]), lambda q, a, b: planar_off_segment(q, a, b), 1e-9)
            after = [tuple(float(c) for c in q[:2]) for q in arg]
            if not bad2 and after != [tuple(q) for q in pts]:
                bad2 = ('callers-trace-was-modified', f"the trace handed in is now {after[:3]}...")
        except Exception as e:
            bad2 = ('raised', repr(e))
        if bad2:
            viol.append((f'C20:planar-{bad2[0]}(trace given as {form})', f"interpolate_path(<{form}> {pts}, {dd}): {bad2[1]}", {'path': pts, 'dd': dd, 'form': form}))
    # ---------------- lat-lon
    lat0, lon0 = rnd.choice(ANCHORS)
    p0 = (lat0 + rnd.uniform(-0.05, 0.05), lon0 + rnd.uniform(-0.05, 0.05))
    gp = [p0]
    tiny = seed % 7 == 5
    far = seed % 5 == 2 and not tiny          # 'every trace': legs of hundreds to thousands of kilometres as well (but shorter than a quarter of the globe)
    for _ in range(n - 1):
        leg = 10 ** rnd.uniform(5.5, math.log10(9.0e6)) if far else 10 ** rnd.uniform(0, math.log10(60000))
        if tiny:
            leg = 10 ** rnd.uniform(-1.5, 0.0)       # a high-rate (RTK-like) trace: fixes 3 cm .. 1 m apart
        q_ = G.destination(gp[-1], rnd.uniform(0, 360), leg)
        if abs(q_[0]) > 80:
            q_ = G.destination(gp[-1], 90.0, leg)
        ax = rnd.random()
        if ax < 0.15:
            # gridded / synthetic traces: the next fix has EXACTLY the same latitude (the connection is still the great
            # circle, which leaves the parallel) ...
            dlon = min(80.0, math.degrees(leg / (G.R * max(0.05, math.cos(math.radians(gp[-1][0])))))) * rnd.choice([1.0, -1.0])
            lo = gp[-1][1] + dlon
            q_ = (gp[-1][0], lo - 360.0 if lo > 180.0 else (lo + 360.0 if lo <= -180.0 else lo))
        elif ax < 0.25:
            # ... or exactly the same longitude (a meridian is a great circle)
            la = gp[-1][0] + min(60.0, math.degrees(leg / G.R)) * rnd.choice([1.0, -1.0])
            q_ = (max(-80.0, min(80.0, la)), gp[-1][1])
        gp.append(q_)
    glens = [G.gc_distance(a, b) for a, b in zip(gp, gp[1:])] or [1.0]
    gdd = max(glens) * 10 ** rnd.uniform(-2, 1)
    gout = dl.interpolate_path(gp, gdd)
    if tiny:
        # at centimetre scale the 3-D unit-vector reference is too coarse (the normal of a 10 cm arc is known to 1e-16/1.5e-8
        # rad, i.e. centimetres on the ground): local tangent plane at the first fix instead (exact to 1e-12 over metres)
        o_ = gp[0]
        lp_ = lambda q: G.local_project(q, o_)
        bad = check_interp(gp, gout, gdd, lambda a, b: math.hypot(lp_(a)[0] - lp_(b)[0], lp_(a)[1] - lp_(b)[1]),
                           lambda q, a, b: planar_off_segment(lp_(q), lp_(a), lp_(b)), 1e-7, tol_on=1e-4)
    else:
        bad = check_interp(gp, gout, gdd, G.gc_distance, lambda q, a, b: G.nearest_on_arc(q, a, b)[0], 1e-9, tol_on=(0.01 if not far else 1.0))
    if bad and not viol:
        viol.append(('C20:latlon-' + bad[0], f"interpolate_path(lat-lon, dd={gdd}): {bad[1]}", {'path': gp, 'dd': gdd}))
    return {'nontrivial': nontriv, 'violations': viol, 'sample': {'planar': pts, 'dd': dd}}


def planar_off_segment(q, a, b):
    dx, dy = b[0] - a[0], b[1] - a[1]
    l2 = dx * dx + dy * dy
    if l2 == 0:
        return math.hypot(q[0] - a[0], q[1] - a[1])
    t = max(0.0, min(1.0, ((q[0] - a[0]) * dx + (q[1] - a[1]) * dy) / l2))
    return math.hypot(q[0] - (a[0] + t * dx), q[1] - (a[1] + t * dy))


def check_interp(orig, out, dd, dist, off, rel, tol_on=None):
    if not out or tuple(out[0]) != tuple(orig[0]):
        return ('first-point-not-kept', f"first point {out[:1]}")
    if tuple(out[-1]) != tuple(orig[-1]):
        return ('last-point-not-kept', f"last point {out[-1]} != {orig[-1]}")
    # originals in order; the points in between lie on the connection, in order, gaps <= dd
    i = 0
    for k in range(len(orig) - 1):
        a, b = orig[k], orig[k + 1]
        L = dist(a, b)
        if tuple(out[i]) != tuple(a):
            return ('original-point-missing-or-out-of-order', f"expected original #{k} at output position {i}")
        j = i + 1
        prev_s = 0.0
        prev = a
        steps = 0
        while j < len(out) and tuple(out[j]) != tuple(b):
            q = out[j]
            tol = (tol_on if tol_on is not None else 1e-9 * (1 + L))
            if off(q, a, b) > tol + rel * L:
                return ('inserted-point-off-the-connection', f"inserted point {q} is {off(q, a, b)} away from the connection of originals #{k},#{k+1}")
            s = dist(a, q)
            if s < prev_s - tol - rel * L:
                return ('inserted-points-out-of-order', f"inserted point {q} goes back along the connection")
            if dist(prev, q) > dd * (1 + 1e-9) + tol:
                return ('gap-larger-than-spacing', f"gap {dist(prev, q)} > {dd}")
            prev_s, prev = s, q
            j += 1
            steps += 1
            if steps > 200000:
                break
        if j >= len(out):
            return ('original-point-missing-or-out-of-order', f"original #{k+1} not found after position {i}")
        # allow the (possibly duplicated) last inserted point == b
        if dist(prev, b) > dd * (1 + 1e-9) + (tol_on or 1e-9 * (1 + L)):
            return ('gap-larger-than-spacing', f"gap {dist(prev, b)} > {dd} before original #{k+1}")
        i = j
        # skip the duplicate of b that the routine emits when it subdivides (last inserted point == b up to rounding)
    if i != len(out) - 1:
        # trailing points after the last original
        if any(tuple(q) != tuple(orig[-1]) for q in out[i:]):
            return ('points-after-the-last-original', f"{len(out) - 1 - i} extra points")
    return None


def case_C15(seed):
    """lat-lon map vs the locally projected planar map, same parameters in metres; emitting-only, no cut-offs."""
    rnd = _rnd(seed, 'C15')
    U.quiet()
    case = U.gen_case(rnd, ne=False, width=0, cutoffs=False, trace_kind=rnd.choice(['walk', 'walk', 'onroad', 'random']))
    if rnd.random() < 0.25:
        # a duplicated node (two labels, one location; common in imported road data): the edge between them has length zero
        gr = case['graph']
        cand = [k for k, (p, nb) in gr.items() if any(b != k and b in gr for b in nb)]
        if cand:
            k = rnd.choice(cand)
            k2 = (max(gr) + 1) if all(isinstance(x, int) for x in gr) else 'Z'
            p, nb = gr[k]
            gr[k2] = (p, [b for b in nb if b != k] + ([k] if rnd.random() < 0.5 else []))
            gr[k] = (p, [k2])
    lat0, lon0 = rnd.choice([a for a in ANCHORS if abs(a[0]) < 60])
    lon0 = rnd.choice([lon0, 0.0, 120.0, -75.0, 179.0])
    s = rnd.choice([10.0, 50.0, 100.0, 250.0])        # metres per grid unit
    if seed % 4 == 2:
        # decimetre geometry: fixes a few decimetres from a node (a stop at a junction) and fixes that hardly move
        s = 10.0
        pts_ = [v[0] for v in case['graph'].values()]
        tr_ = []
        for p in case['trace']:
            r_ = rnd.random()
            if r_ < 0.4:
                q = rnd.choice(pts_)
                tr_.append((q[0] + rnd.choice([-0.035, -0.02, 0.02, 0.03]), q[1] + rnd.choice([-0.03, -0.02, 0.025, 0.035])))
            elif r_ < 0.6 and tr_:
                tr_.append((tr_[-1][0] + rnd.choice([0.01, 0.02, -0.02]), tr_[-1][1] + rnd.choice([0.015, -0.01, 0.03])))
            else:
                tr_.append(p)
        case['trace'] = tr_
        case['cfg']['obs_noise'] = rnd.choice([0.09, 0.2])
    origin = (lat0, lon0)

    if seed % 9 == 4:
        # 'any longitude': the map straddles the antimeridian - or the prime meridian - (the line runs through the grid, 1 to
        # 3 units from its west side)
        lon0 = (180.0 if seed % 18 == 4 else 0.0) - math.degrees(rnd.choice([1.0, 2.0, 2.25, 3.0]) * s / (G.R * math.cos(math.radians(lat0))))
        origin = (lat0, lon0)

    def to_ll(p):
        lo = lon0 + math.degrees(p[1] * s / (G.R * math.cos(math.radians(lat0))))
        lo = lo - 360.0 if lo > 180.0 else (lo + 360.0 if lo <= -180.0 else lo)       # longitudes are given in (-180, 180]
        return (lat0 + math.degrees(p[0] * s / G.R), lo)
    g_ll = {k: (to_ll(v[0]), v[1]) for k, v in case['graph'].items()}
    tr_ll = [to_ll(p) for p in case['trace']]
    g_xy = {k: (G.local_project(v[0], origin), v[1]) for k, v in g_ll.items()}
    tr_xy = [G.local_project(p, origin) for p in tr_ll]
    cfg = dict(case['cfg'])
    for f in ('obs_noise', 'obs_noise_ne', 'dist_noise'):
        if cfg.get(f) is not None:
            cfg[f] = cfg[f] * s
    cfg['max_dist'] = None
    cfg['max_dist_init'] = 1e7           # finite and far beyond the map: "no cut-offs"
    res = []
    # one case in four with integer labels: both maps are SqliteMaps (the spatial index of that backend stores 32-bit floats -
    # decimetres in degrees, nothing in metres; the coordinates the matcher sees must still be the 64-bit ones).  Both, because
    # the backends differ by design in one respect (C12: the in-memory map lists a node as its own neighbour)
    sqlite_ll = seed % 4 == 1 and all(isinstance(k, int) for k in g_ll)
    tmpd = None
    wiring_bad = []
    try:
        for g, tr, ll in ((g_ll, tr_ll, True), (g_xy, tr_xy, False)):
            if sqlite_ll:
                import tempfile
                from rtc.map_suites import build_sqlite
                tmpd = tmpd or tempfile.mkdtemp(prefix='c15_')
                mp, _ = build_sqlite(g, tmpd, name='ll' if ll else 'xy', use_latlon=ll, how='single')
            else:
                mp = U.make_map(g, use_latlon=ll)
            mt = U.make_matcher(mp, cfg)
            import io, contextlib
            with contextlib.redirect_stdout(io.StringIO()):      # SqliteMap.edges_closeto prints its argument
                r = mt.match(tr)
            res.append(U.canon(mt, r))
            if ll:
                # the matched position a state reports is the projection point the MAP's metric returns for that observation and
                # edge, bit for bit (the matcher and its helper classes add no geometry, rounding or snapping of their own: in
                # degrees a 1e-6 grid is 11 cm, which no comparison of probabilities within GPS tolerances can see)
                for m_ in (mt.lattice_best or []):
                    if m_.obs_ne == 0 and m_.edge_m.p2 is not None and m_.edge_m.pi is not None:
                        o_ = tuple(tr[m_.obs][:2])
                        ref_ = mp.distance_point_to_segment(o_, m_.edge_m.p1, m_.edge_m.p2)
                        if tuple(m_.edge_m.pi[:2]) != tuple(ref_[1][:2]) or m_.edge_m.ti != ref_[2]:
                            wiring_bad.append((m_.key, tuple(m_.edge_m.pi), m_.edge_m.ti, tuple(ref_[1]), ref_[2]))
                            break
    finally:
        if tmpd:
            import shutil
            shutil.rmtree(tmpd, ignore_errors=True)
    a, b = res
    viol = []
    knife = 0
    if wiring_bad:
        k_, pi_, ti_, rpi_, rti_ = wiring_bad[0]
        viol.append(('C15:matched-position-is-not-the-projection-the-metric-returns', f"state {k_}: reported position / relative position {pi_} / {ti_}, "
                     f"map.distance_point_to_segment gives {rpi_} / {rti_}", {'case': U.case_repr(case), 'origin': origin, 'metres_per_unit': s}))
    # log-probabilities: 1e-3 absolute (a relative 1e-3 on the probability itself) + 2e-3 relative + first-order propagation
    # of the distortion of the local projection itself: over a map of extent `span` a distance differs between the sphere and
    # the equirectangular plane by at most delta = span^2 tan|lat| / (2R) (east-west scale changes by tan(lat)*dlat; the
    # sagitta of a geodesic against the straight line is a quarter of that).  The score is -sum d_i^2/(2 s_i^2) (+ penalties),
    # so 2n terms each perturbed by delta change it by at most e*sqrt(4 n |lp|) + n e^2 with e = delta / min noise.
    pts_xy = [v[0] for v in g_xy.values()] + list(tr_xy)
    span = math.hypot(max(q[0] for q in pts_xy) - min(q[0] for q in pts_xy), max(q[1] for q in pts_xy) - min(q[1] for q in pts_xy))
    delta = span * span * max(0.1, math.tan(math.radians(abs(lat0)))) / (2 * G.R)
    smin = min(v for v in (cfg.get('obs_noise'), cfg.get('dist_noise') or cfg.get('obs_noise')) if v)
    e_ = delta / smin
    n_ = len(tr_xy)
    lp_ = abs(b['best']) if b['best'] is not None else 0.0
    tol_abs = 1e-3 + e_ * math.sqrt(4 * n_ * lp_) + n_ * e_ * e_
    if cfg['family'] == 'distance':
        # the transition term of this family uses the distance between two PROJECTED positions; the geodesic projection is
        # only resolved to about 0.12 m along the segment (acos near 1, see C14), the planar one is exact
        e2_ = 0.24 / ((cfg.get('dist_noise') or cfg.get('obs_noise')))
        tol_abs += e2_ * math.sqrt(4 * n_ * lp_) + n_ * e2_ * e2_
    if a['idx'] != b['idx'] or (a['best'] is not None and not close(a['best'], b['best'], 2e-3, tol_abs)):
        # knife edge: a discrete penalty decision (ti comparison / projection exactly on an end point) within margin
        if knife_edge_ti(g_xy, tr_xy):
            knife = 1
        else:
            viol.append(('C15:latlon-differs-from-projected-planar', f"lat-lon idx/best {a['idx']}/{a['best']} vs planar {b['idx']}/{b['best']} at {origin}, {s} m per unit",
                         {'case': U.case_repr(case), 'origin': origin, 'metres_per_unit': s, 'latlon': a, 'planar': b, 'maps': 'SqliteMap' if sqlite_ll else 'InMemMap'}))
    return {'nontrivial': bool(a['states']) and len(case['graph']) >= 3, 'violations': viol, 'sample': {'origin': origin, 'scale': s, 'case': U.case_repr(case)},
            'knife_edge': knife}


def knife_edge_ti(g, tr, tol=1e-6, along_m=0.15):
    """some observation projects (within tol relative) exactly onto an end point of an edge, or two consecutive observations
    project to (nearly) the same relative position: the strict `ti < prev.ti` penalty test is on a knife edge"""
    from rtc import oracles as O
    edges = [(a, b) for a, (p, nb) in g.items() for b in nb if b in g and b != a]
    for (a, b) in edges:
        prev_t = None
        for p in tr:
            d, q, t = O.nearest(p, g[a][0], g[b][0])
            dx, dy = g[b][0][0] - g[a][0][0], g[b][0][1] - g[a][0][1]
            l2 = dx * dx + dy * dy
            if l2 == 0:
                continue
            raw = ((p[0] - g[a][0][0]) * dx + (p[1] - g[a][0][1]) * dy) / l2
            if abs(raw) < tol or abs(raw - 1.0) < tol:
                return True
            # the geodesic along-track distance comes from an acos near 1 and has a resolution of about 0.1 m (see C14): a
            # projection within 15 cm of an end point can be reported as exactly the end point
            if along_m and (abs(raw) * math.sqrt(l2) < along_m or abs(raw - 1.0) * math.sqrt(l2) < along_m):
                return True
            if prev_t is not None and abs(t - prev_t) < tol:
                return True
            prev_t = t
    return False


# ================================================================================================== C05 on a latitude-longitude map
def case_C05_latlon(seed):
    """C05 in the latitude-longitude metric: universe maps placed at street scale (10 m per grid unit), cut-offs in metres;
    every emitting state on the best path lies within the cut-offs, and its reported distance and position are the distance to /
    the nearest point of its edge according to an independent spherical reference (12 cm + 1e-6: the resolution stated in C14)."""
    rnd = _rnd(seed, 'C05ll')
    U.quiet()
    case = U.gen_case(rnd, width=0)
    s = 10.0
    lat0, lon0 = rnd.choice([a for a in ANCHORS if abs(a[0]) < 60])
    if seed % 5 == 3:
        # regional scale: 20 km per grid unit (edges of 10 .. 100 km: motorway, rail and ferry links), fixes kilometres off
        s = 20000.0
        lat0 = max(-45.0, min(45.0, lat0))
    elif seed % 2 == 0:
        # fixes a few decimetres from a node
        pts_ = [v[0] for v in case['graph'].values()]
        tr_ = []
        for p in case['trace']:
            if rnd.random() < 0.5:
                q = rnd.choice(pts_)
                tr_.append((q[0] + rnd.choice([-0.05, -0.03, 0.02, 0.04]), q[1] + rnd.choice([-0.04, -0.02, 0.03, 0.05])))
            else:
                tr_.append(p)
        case['trace'] = tr_

    def to_ll(p):
        return (lat0 + math.degrees(p[0] * s / G.R), lon0 + math.degrees(p[1] * s / (G.R * math.cos(math.radians(lat0)))))
    g_ll = {k: (to_ll(v[0]), v[1]) for k, v in case['graph'].items()}
    tr_ll = [to_ll(p) for p in case['trace']]
    cfg = dict(case['cfg'])
    for f in ('obs_noise', 'obs_noise_ne', 'dist_noise', 'max_dist', 'max_dist_init'):
        if cfg.get(f) is not None:
            cfg[f] = cfg[f] * s
    mp = U.make_map(g_ll, use_latlon=True)
    mt = U.make_matcher(mp, cfg)
    try:
        mt.match(tr_ll)
    except Exception:
        return {'nontrivial': False, 'violations': [], 'sample': U.case_repr(case)}          # totality is C17's business
    lb = mt.lattice_best or []
    max_dist = cfg.get('max_dist') or math.inf
    max_init = cfg.get('max_dist_init') or max_dist
    viol = []
    for j, m in enumerate(lb):
        if m.obs_ne != 0:
            continue
        bad = []
        o = tuple(mt.path[m.obs][:2])
        lim = max_init if j == 0 else max_dist
        if m.edge_m.p2 is not None:
            rd, rpi, rti = G.nearest_on_arc(o, m.edge_m.p1, m.edge_m.p2)
            if abs(m.dist_obs - rd) > 0.12 + 1e-6 * rd:
                bad.append(f"dist_obs {m.dist_obs} m is not the distance {rd} m to the nearest point of the edge")
            if G.gc_distance(m.edge_m.pi, rpi) > 0.15 + 1e-6 * (rd + G.gc_distance(o, m.edge_m.p1)):
                bad.append(f"reported position {m.edge_m.pi} is {G.gc_distance(m.edge_m.pi, rpi)} m from the nearest point {rpi} of the edge")
        else:
            rd = G.gc_distance(o, m.edge_m.p1)
            if abs(m.dist_obs - rd) > 1e-3 + 1e-6 * rd:
                bad.append(f"dist_obs {m.dist_obs} m is not the distance {rd} m to the node")
        if rd > lim + 0.12:
            bad.append(f"true distance {rd} m exceeds the cut-off {lim} m")
        if bad:
            viol.append(('C05:latlon-' + bad[0].split(' ')[0], f"state #{j} {m.key}: " + ' | '.join(bad),
                         {'case': U.case_repr(case), 'anchor': [lat0, lon0], 'metres_per_unit': s, 'state_index': j, 'failed': bad}))
            break
    return {'nontrivial': len(lb) >= 2, 'violations': viol, 'sample': {'anchor': [lat0, lon0], 'case': U.case_repr(case)}}


# ================================================================================================== C17: search discs that end at a pole
def polar_suite(chk, tier, seed):
    """Totality at the one singular place of the lat-lon search box: a disc that just reaches, or just fails to reach, a pole
    (the box switches there from a longitude interval to the whole parallel).  box_around_point and a match with that start
    radius must not raise for radii within parts in 1e6 .. 1e16 of the distance to the pole, on either side."""
    import random as _r
    from leuvenmapmatching.util import dist_latlon as dl
    from leuvenmapmatching.map.inmem import InMemMap
    from leuvenmapmatching.matcher.simple import SimpleMatcher
    U.quiet()
    rnd = _r.Random(seed * 613 + 5)
    n, evals = 0, 0
    lats = [89.999, -89.999, 89.9, -89.0, 85.0] + [rnd.choice([1, -1]) * rnd.uniform(80.0, 89.9995) for _ in range(3 if tier == 'quick' else 40)]
    for lat in lats:
        lon = rnd.uniform(-179.0, 179.0)
        to_pole = G.R * (math.pi / 2 - math.radians(abs(lat)))
        for k in list(range(6, 17)) + [None]:
            for sgn in (1.0, -1.0):
                r = to_pole if k is None else to_pole * (1.0 + sgn * 10.0 ** -k)
                evals += 1
                try:
                    box = dl.box_around_point((lat, lon), r)
                    ok = len(box) == 4 and all(isinstance(v, float) or isinstance(v, int) for v in box)
                    err = None if ok else f"returned {box!r}"
                except Exception as e:
                    err = f"raised {e!r}"
                if err is None and k in (9, 12, None) and sgn > 0:
                    # the same radius as start radius of a match on a small map next to the query point
                    s_ = 1.0 if lat < 0 else -1.0
                    g = {1: ((lat + s_ * 2e-4, lon), [2]), 2: ((lat + s_ * 4e-4, lon + 1e-3), [1])}
                    try:
                        mt = SimpleMatcher(InMemMap('polar', use_latlon=True, use_rtree=False, graph=g), obs_noise=20.0, max_dist_init=r, max_dist=r,
                                           non_emitting_states=False)
                        res = mt.match([(lat + s_ * 2.5e-4, lon), (lat + s_ * 3.5e-4, lon + 5e-4)])
                        if not (isinstance(res, tuple) and len(res) == 2):
                            err = f"match returned {res!r}"
                    except Exception as e:
                        err = f"match(max_dist_init={r!r}) raised {e!r}"
                    evals += 1
                if err:
                    n += 1
                    chk.violation(key='C17:search-disc-ending-at-a-pole', text=f"box_around_point(({lat}, {lon}), {r!r}) [distance to the pole {to_pole!r}]: {err}",
                                  replay={'kind': 'bounded', 'suite': 'polar', 'location': [lat, lon], 'radius': r, 'distance_to_pole': to_pole, 'error': err})
    chk.bounded_suite('search-discs-ending-at-a-pole', evals, len(lats), [[lats[0], 'radius = distance to the pole * (1 +- 10^-k), k = 6..16']],
                      rule="locations 100 m .. 1100 km from a pole; radii equal to the distance to the pole and within parts in 1e6 .. 1e16 of it on either side: "
                           "box_around_point returns four numbers, and a match with that start radius returns a (list, index) pair", bounds='')
