"""Bounded run-time-contract suites for the matcher properties.  Each case function takes a seed, builds one
case of the universe (rtc/universe.py), runs the REAL matcher and checks the property's contract with the spec
functions of rtc/oracles.py.  Returns dict(nontrivial, violations=[(key, text, replay)], sample)."""
import copy
import logging
import math
import random

from rtc import universe as U
from rtc import oracles as O


def _rnd(seed, salt):
    return random.Random(f"{salt}:{seed}")


def close(a, b, rel=1e-9, abs_=1e-9):
    if a is None or b is None:
        return a is b
    return abs(a - b) <= abs_ + rel * max(abs(a), abs(b))


def run_match(case, **kw):
    mp = U.make_map(case['graph'])
    mt = U.make_matcher(mp, case['cfg'], case.get('warmup'))
    res = mt.match(case['trace'], **kw)
    return mp, mt, res


def in_box(p, c, d):
    return abs(p[0] - c[0]) <= d and abs(p[1] - c[1]) <= d


# ================================================================================================== C01
def case_C01(seed, max_trace=4):
    rnd = _rnd(seed, 'C01')
    case = U.gen_case(rnd, ne=False, width=0, avoid_goingback=False, trace_len=rnd.choice([1, 2, 3, 3, max_trace]),
                      graph_family=rnd.choice([None, None, 'merge', 'oneway']))
    if rnd.random() < 0.5:
        case['cfg']['min_prob_norm'] = rnd.choice([0.3, 0.5, 0.6, 0.7])
    U.quiet()
    mp, mt, (states, idx) = run_match(case)
    view = O.View(graph=case['graph'])
    model = O.Model(case['cfg'])
    k, lp, walk = O.best_walk(view, case['trace'], model)
    viol = []
    got_lp = mt.lattice_best[-1].logprob if mt.lattice_best else None
    ok = (k == 0 and states == [] and idx == 0) or (k > 0 and states and idx == k - 1 and close(got_lp, lp, 1e-9, 1e-9))
    if not ok:
        # classify the known finding F2 (start candidates restricted to start nodes inside the box)
        c0 = tuple(case['trace'][0][:2])
        k2, lp2, _ = O.best_walk(view, case['trace'], model,
                                 start_filter=(lambda key: in_box(view.nodes[key[0] if isinstance(key, tuple) else key], c0, model.max_dist_init)))
        ok2 = (k2 == 0 and states == [] and idx == 0) or (k2 > 0 and states and idx == k2 - 1 and close(got_lp, lp2, 1e-9, 1e-9))
        key = 'C01:start-candidates-F2' if (ok2 and model.only_edges) else 'C01:not-a-maximum-probability-walk'
        viol.append((key, f"match -> idx {idx}, best logprob {got_lp}; all-walks optimum: prefix {k} observations, logprob {lp}, walk {walk}",
                     {'case': U.case_repr(case), 'returned': [str(s) for s in (states or [])], 'idx': idx, 'logprob': got_lp,
                      'spec_prefix': k, 'spec_logprob': lp, 'spec_walk': [str(w) for w in (walk or [])]}))
    return {'nontrivial': k >= 2 and len(view.edges) >= 2, 'violations': viol, 'sample': U.case_repr(case)}


# ================================================================================================== histories
def gen_history(rnd, case, allow_cwd=True):
    """list of operations: ('match', n) | ('extend', n) | ('widen', W) | ('cwd',)"""
    n = len(case['trace'])
    ops = []
    k = rnd.randint(1, n)
    ops.append(('match', k))
    cur_w = case['cfg'].get('max_lattice_width')
    for _ in range(rnd.randint(0, 3)):
        c = rnd.random()
        if c < 0.4 and k < n:
            k = rnd.randint(k + 1, n)
            ops.append(('extend', k))
        elif c < 0.8 and cur_w is not None:
            cur_w = cur_w + rnd.randint(0, 2)
            ops.append(('widen', cur_w))
        elif allow_cwd and c < 0.9:
            ops.append(('cwd',))
    return ops


def apply_op(mt, case, op):
    """Returns result tuple or None (for operations that return no path)."""
    tr = case['trace']
    if op[0] == 'match':
        return mt.match(tr[:op[1]])
    if op[0] == 'extend':
        return mt.match(tr[:op[1]], expand=True)
    if op[0] == 'widen':
        return mt.increase_max_lattice_width(op[1])
    if op[0] == 'cwd':
        if mt.early_stop_idx is None or mt.early_stop_idx == 0:
            return 'skipped'            # documented use: after an early stop
        # half of the cases (a function of the trace) give the jump radius explicitly, wider than the default 3 x max_dist:
        # a radius for FINDING edges to jump to, not a new cut-off for the observations
        import zlib
        md_ = mt.max_dist if mt.max_dist is not None and mt.max_dist < float('inf') else None
        if zlib.crc32(repr(tr).encode()) % 2 == 0 and md_ is not None:
            mt.continue_with_distance(max_dist=5.0 * md_)
        else:
            mt.continue_with_distance()
        # the documented recipe: after the jump the SAME trace is matched again in expansion mode
        return mt.match(list(mt.path), expand=True)
    raise ValueError(op)


# ================================================================================================== C02
def case_C02(seed):
    rnd = _rnd(seed, 'C02')
    case = U.gen_case(rnd, grid=(seed % 7 == 3))
    U.quiet()
    mp = U.make_map(case['graph'])
    mt = U.make_matcher(mp, case['cfg'], case.get('warmup'))
    view = O.View(graph=case['graph'])
    model = O.Model(case['cfg'])
    ops = gen_history(rnd, case, allow_cwd=False)
    viol, nontriv = [], False
    done = []
    for op in ops:
        try:
            res = apply_op(mt, case, op)
        except Exception as e:
            break       # totality is C17's business
        done.append(op)
        if res is None or res == 'skipped' or not mt.lattice_best:
            continue
        lb = mt.lattice_best
        tr = mt.path
        try:
            spec = O.rescore(view, tr, model, lb)
        except KeyError:
            continue
        if any(m.obs_ne for m in lb) or len(done) > 1:
            nontriv = True
        for j, (m, s) in enumerate(zip(lb, spec)):
            bad = []
            if not close(m.logprob, s['logprob'], 1e-7, 1e-9):
                bad.append(f"logprob {m.logprob} != model {s['logprob']}")
            if not close(m.dist_obs, s['dist_obs'], 1e-7, 1e-9):
                bad.append(f"dist_obs {m.dist_obs} != model {s['dist_obs']}")
            if m.length != s['length']:
                bad.append(f"length {m.length} != model {s['length']}")
            if bad:
                key02 = 'C02:reported-values-differ-from-model'
                # witness of the mechanism of F17/F17b: the predecessor on the path was replaced IN PLACE by a better candidate at some
                # time (update() moves the replaced predecessors to prev_other), so this state was derived from its old content
                replaced = j >= 1 and bool(getattr(lb[j - 1], 'prev_other', None))
                if m.obs_ne >= 1 and any(o[0] == 'widen' for o in done) and len(bad) == 1 and bad[0].startswith('logprob') \
                        and (m.logprob < s['logprob'] or replaced):
                    # a non-emitting state whose stored score is worse than its (improved) predecessor chain now implies
                    key02 = 'C02:stale-non-emitting-score-after-widening'
                elif m.obs_ne == 0 and any(o[0] == 'widen' for o in done) and len(bad) == 1 \
                        and bad[0].startswith('logprob') and ((case['cfg'].get('non_emitting_states') and m.logprob < s['logprob']) or replaced):
                    # the same mechanism one step later: an EMITTING state derived from a non-emitting chain whose entry was
                    # improved in place, in a later round, by a candidate that carries an OLD round number (finding F17b)
                    key02 = 'C02:stale-emitting-score-after-widening'
                viol.append((key02,
                             f"after {done}: state #{j} {m.key}: " + '; '.join(bad),
                             {'case': U.case_repr(case), 'ops': done, 'state_index': j, 'key': [str(x) for x in m.key],
                              'reported': {'logprob': m.logprob, 'dist_obs': m.dist_obs, 'length': m.length}, 'model': s}))
                break
        if viol:
            break
    return {'nontrivial': nontriv, 'violations': viol, 'sample': {'case': U.case_repr(case), 'ops': ops}}


# ================================================================================================== C03
def check_alignment(mt, res, trace, unique):
    states, idx = res
    lb = mt.lattice_best
    bad = []
    col0_live = any(not m.stop for m in mt.lattice[0].values(0)) if mt.lattice and 0 in mt.lattice else False
    if states is None:
        return ["result list is None"]
    if not states:
        if idx != 0:
            bad.append(f"empty list with index {idx}")
        if col0_live:
            bad.append("empty result although the first observation has an admissible candidate")
        return bad
    if not col0_live:
        bad.append("non-empty result although the first observation has no admissible candidate")
    # observations in order starting at the first one; one emitting state per matched observation
    exp_obs, exp_ne = 0, 0
    last_emit = None
    for j, m in enumerate(lb):
        if m.obs_ne == 0:
            want = 0 if last_emit is None else last_emit + 1
            if m.obs != want:
                bad.append(f"state #{j}: emitting state for observation {m.obs}, expected {want}")
                break
            last_emit = m.obs
            exp_ne = 1
        else:
            if last_emit is None or m.obs != last_emit or m.obs_ne != exp_ne:
                bad.append(f"state #{j}: non-emitting state ({m.obs},{m.obs_ne}) out of place (last emitting {last_emit}, expected depth {exp_ne})")
                break
            exp_ne += 1
    keys = [m.shortkey for m in lb]
    if unique:
        coll = [k for j, k in enumerate(keys) if j == 0 or k != keys[j - 1]]
        if list(states) != coll:
            bad.append("returned list is not the path's states with consecutive repeats collapsed")
    elif list(states) != keys:
        bad.append("returned list is not the path's states")
    if last_emit is not None and idx != last_emit:
        bad.append(f"returned index {idx} but the last observation with an emitting state is {last_emit}")
    whole = any(not m.stop for m in mt.lattice[len(trace) - 1].values(0))
    if (idx == len(trace) - 1) != whole:
        bad.append(f"index {idx} vs trace length {len(trace)}: whole trace matched = {whole}")
    return bad


def case_C03(seed):
    rnd = _rnd(seed, 'C03')
    case = U.gen_case(rnd, laps=rnd.random() < 0.1)
    U.quiet()
    unique = rnd.random() < 0.5
    mp = U.make_map(case['graph'])
    mt = U.make_matcher(mp, case['cfg'], case.get('warmup'))
    ops = gen_history(rnd, case, allow_cwd=False) if rnd.random() < 0.6 else [('match', len(case['trace']))]
    viol, done, nt = [], [], False
    for op in ops:
        tr = case['trace']
        try:
            if op[0] == 'match':
                res = mt.match(tr[:op[1]], unique=unique)
            elif op[0] == 'extend':
                res = mt.match(tr[:op[1]], unique=unique, expand=True)
            else:
                res = mt.increase_max_lattice_width(op[1], unique=unique)
        except Exception:
            break
        done.append(op)
        bad = check_alignment(mt, res, mt.path, unique)
        if res[0] and (res[1] < len(mt.path) - 1 or any(m.obs_ne for m in mt.lattice_best) or len(done) > 1):
            nt = True
        if bad:
            viol.append(('C03:' + bad[0].split(':')[0][:60], f"after {done} (unique={unique}) -> {res[1]}, {res[0]}: " + ' | '.join(bad),
                         {'case': U.case_repr(case), 'unique': unique, 'ops': done, 'result': [str(res[0]), res[1]], 'failed': bad,
                          'lattice_best': [[str(k) for k in m.key] for m in (mt.lattice_best or [])]}))
            break
    return {'nontrivial': nt, 'violations': viol, 'sample': {'case': U.case_repr(case), 'ops': ops}}


# ================================================================================================== C04
def walk_violations(view, mt, linked=None):
    lb = mt.lattice_best or []
    bad = []
    keys = [m.shortkey for m in lb]
    for j, k in enumerate(keys):
        if not O.state_exists(view, k):
            bad.append(f"state #{j} {k} is not a node / directed edge of the map")
    for j in range(1, len(keys)):
        if not O.is_move(view, keys[j - 1], keys[j], linked):
            bad.append(f"step #{j}: the map does not offer the move {keys[j-1]} -> {keys[j]}")
    if not bad and keys and not linked:
        try:
            nodes = mt.path_pred_onlynodes
        except Exception as e:
            bad.append(f"nodes-only view not computable: {e!r}")
            return bad
        for a, b in zip(nodes, nodes[1:]):
            if a == b:
                bad.append(f"nodes-only view repeats {a}")
            elif b not in view.out.get(a, []) and a not in view.out.get(b, []):
                bad.append(f"nodes-only view: {a} and {b} are not adjacent")
    return bad


def case_C04(seed):
    rnd = _rnd(seed, 'C04')
    if seed % 8 == 5:
        case = U.gen_merge_linked_case(random.Random(seed))
        linked = case['linked']
    else:
        case = U.gen_case(rnd, laps=rnd.random() < 0.15)
        linked = U.gen_linked(case)
    if seed % 6 == 1:
        # labels that look like something else: strings of exactly two characters (as long as an edge has nodes), a tuple of
        # two (grid cells as labels) is left to C16's label genericity
        ks_ = list(case['graph'])
        mp_ = {k: f"{'KQXZ'[i % 4]}{i}" if i < 10 else f"{'abcdefghij'[i % 10]}{'KQXZ'[i // 10 % 4]}" for i, k in enumerate(ks_)}
        case['graph'] = {mp_[a]: (p, [mp_[b] for b in nb if b in mp_]) for a, (p, nb) in case['graph'].items()}
        if linked:
            linked = {(mp_[a], mp_[b]): {(mp_[c], mp_[d]) for (c, d) in v} for (a, b), v in linked.items()}
    U.quiet()
    mp = U.make_map(case['graph'], linked=linked)
    mt = U.make_matcher(mp, case['cfg'], case.get('warmup'))
    view = O.View(graph=case['graph'])
    ops = gen_history(rnd, case, allow_cwd=False)
    unique = rnd.random() < 0.5
    viol, done = [], []
    nt = False
    # the moves the MAP offers from an edge are exactly: the edges leaving its end node, plus the parallel roads declared as
    # linked to THIS directed edge (a walk is only as good as the neighbour query behind every lattice step)
    g_ = case['graph']
    for a_, (pa_, nb_) in g_.items():
        for b_ in nb_:
            if b_ not in g_ or b_ == a_:
                continue
            got_ = {(t[0], t[2]) for t in mp.edges_nbrto((a_, b_)) if t[0] != t[2]}
            exp_ = {(b_, c_) for c_ in g_[b_][1] if c_ in g_ and c_ != b_} | set((linked or {}).get((a_, b_), ()))
            if got_ != exp_ and not viol:
                viol.append(('C04:map-offers-a-move-that-is-not-in-the-road-graph' if got_ - exp_ else 'C04:map-withholds-a-move-of-the-road-graph',
                             f"edges_nbrto({(a_, b_)}) offers {sorted(got_, key=str)}, the road graph and the declared links give {sorted(exp_, key=str)}",
                             {'case': U.case_repr(case), 'linked_edges': {str(k): sorted(map(str, v)) for k, v in (linked or {}).items()}, 'edge': [str(a_), str(b_)]}))
    if viol:
        return {'nontrivial': True, 'violations': viol, 'sample': {'case': U.case_repr(case)}}
    for op in ops:
        tr = case['trace']
        try:
            if op[0] == 'match':
                res = mt.match(tr[:op[1]], unique=unique)
            elif op[0] == 'extend':
                res = mt.match(tr[:op[1]], unique=unique, expand=True)
            else:
                res = mt.increase_max_lattice_width(op[1], unique=unique)
        except Exception:
            break
        done.append(op)
        if res is None or res == 'skipped':
            continue
        bad = walk_violations(view, mt, linked)
        # the returned state list (collapsed when uniqueness was requested) is a walk as well
        st_ = list(res[0] or [])
        for j in range(1, len(st_)):
            if not O.is_move(view, st_[j - 1], st_[j], linked):
                bad.append(f"returned list (unique={unique}) step #{j}: the map does not offer the move {st_[j-1]} -> {st_[j]}")
                break
        if mt.lattice_best and len(set(m.shortkey for m in mt.lattice_best)) >= 2:
            nt = True
        if bad:
            viol.append(('C04:' + bad[0].split(' ')[0] + '-' + bad[0].split(':')[-1].strip()[:30].split(' ')[0], f"after {done}: " + ' | '.join(bad[:3]),
                         {'case': U.case_repr(case), 'linked_edges': {str(k): sorted(map(str, v)) for k, v in (linked or {}).items()},
                          'ops': done, 'path': [str(m.shortkey) for m in mt.lattice_best], 'failed': bad[:5]}))
            break
    return {'nontrivial': nt, 'violations': viol, 'sample': {'case': U.case_repr(case), 'ops': ops}}


# ================================================================================================== C05
def case_C05(seed):
    rnd = _rnd(seed, 'C05')
    case = U.gen_case(rnd)
    gap = seed % 6 == 4
    if gap:
        case = U.gen_gap_case(random.Random(seed))
    U.quiet()
    mp = U.make_map(case['graph'])
    mt = U.make_matcher(mp, case['cfg'], case.get('warmup'))
    ops = gen_history(rnd, case, allow_cwd=True) if rnd.random() < 0.5 else [('match', len(case['trace']))]
    if gap:
        ops = [('match', len(case['trace'])), ('cwd',)]
    if any(o[0] == 'cwd' for o in ops):
        ops.append(('extend_same',))
    for op in ops:
        try:
            if op[0] == 'extend_same':
                mt.match(mt.path, expand=True)
            else:
                apply_op(mt, case, op)
        except Exception:
            break
    model = O.Model(case['cfg'])
    view = O.View(graph=case['graph'])
    viol = []
    lb = mt.lattice_best or []
    jumped = any(o[0] == 'cwd' for o in ops)
    cut = any(m.stop for col in mt.lattice.values() for lay in col.o for m in lay.values()) if mt.lattice else False
    for j, m in enumerate(lb):
        bad = []
        lim = model.max_dist_init if j == 0 else model.max_dist
        if m.dist_obs > lim * (1 + 1e-12):
            bad.append(f"dist_obs {m.dist_obs} > {'max_dist_init' if j == 0 else 'max_dist'} {lim}")
        if m.logprob / m.length < model.min_lp - 1e-12:
            bad.append(f"normalised log-probability {m.logprob / m.length} < log(min_prob_norm) {model.min_lp}")
        if m.stop:
            bad.append("state on the returned path is marked as cut off")
        if m.obs_ne == 0:
            o = tuple(mt.path[m.obs][:2])
            if m.edge_m.p2 is not None:
                d, q, t = O.nearest(o, m.edge_m.p1, m.edge_m.p2)
                if not close(m.dist_obs, d, 1e-9, 1e-9):
                    bad.append(f"dist_obs {m.dist_obs} is not the distance {d} to the nearest point of the edge")
                if math.hypot(m.edge_m.pi[0] - q[0], m.edge_m.pi[1] - q[1]) > 1e-7:
                    bad.append(f"reported position {m.edge_m.pi} is not the nearest point {q} of the edge")
            else:
                d = O.dist(o, m.edge_m.p1)
                if not close(m.dist_obs, d, 1e-9, 1e-9):
                    bad.append(f"dist_obs {m.dist_obs} is not the distance {d} to the node")
        if bad:
            viol.append(('C05:' + bad[0].split(' ')[0], f"state #{j} {m.key}: " + ' | '.join(bad),
                         {'case': U.case_repr(case), 'state_index': j, 'key': [str(x) for x in m.key], 'failed': bad}))
            break
    return {'nontrivial': bool(lb) and cut or (bool(lb) and len(lb) >= 2), 'violations': viol, 'sample': U.case_repr(case)}


# ================================================================================================== C06
def case_C06(seed):
    rnd = _rnd(seed, 'C06')
    case = U.gen_case(rnd, width=0, avoid_goingback=False, trace_kind=rnd.choice(['sparse', 'sparse', 'walk', None]),
                      n=rnd.choice([4, 5, 5]), graph_family=rnd.choice(['line', 'chain', 'oneway', 'cycle', 'grid', None]),
                      trace_len=rnd.choice([2, 3, 3, 4]), family=rnd.choice(['simple', 'simple', 'distance']),
                      only_edges=rnd.choice([False, False, True]))
    U.quiet()
    out = {}
    # "matching" includes matching in successive extensions (same cut points on both sides)
    ntr = len(case['trace'])
    cuts = sorted(set(rnd.randint(1, ntr - 1) for _ in range(rnd.randint(1, 2)))) if (ntr > 1 and seed % 3 == 0) else []
    for ne in (False, True):
        c = copy.deepcopy(case)
        c['cfg']['non_emitting_states'] = ne
        if cuts:
            mp = U.make_map(c['graph'])
            mt = U.make_matcher(mp, c['cfg'], c.get('warmup'))
            try:
                res = mt.match(c['trace'][:cuts[0]])
                for k_ in cuts[1:] + [ntr]:
                    res = mt.match(c['trace'][:k_], expand=True)
            except Exception:
                return {'nontrivial': False, 'violations': [], 'sample': U.case_repr(case)}      # totality is C17's business
        else:
            mp, mt, res = run_match(c)
        out[ne] = U.canon(mt, res)
        out[ne]['used_ne'] = any(m.obs_ne for m in (mt.lattice_best or []))
    viol = []
    n = len(case['trace'])
    off, on = out[False], out[True]
    if on['idx'] < off['idx'] or (off['states'] and not on['states']):
        viol.append(('C06:matched-prefix-shortened', f"non-emitting states off: idx {off['idx']}; on: idx {on['idx']}",
                     {'case': U.case_repr(case), 'extensions_at': cuts, 'off': off, 'on': on}))
    elif off['states'] and on['states'] and off['idx'] == n - 1 and on['idx'] == n - 1 and on['best'] < off['best'] - 1e-9 * (1 + abs(off['best'])):
        viol.append(('C06:best-probability-lowered', f"whole trace matched both ways{' (extended at ' + str(cuts) + ')' if cuts else ''}, best log-probability off {off['best']} > on {on['best']}",
                     {'case': U.case_repr(case), 'extensions_at': cuts, 'off': off, 'on': on}))
    return {'nontrivial': on['used_ne'] or on['idx'] != off['idx'], 'violations': viol, 'sample': U.case_repr(case)}


# ================================================================================================== C07
def expanded_set_monitor(mt, log):
    """Wrap _match_states: at the moment a column is expanded, record expanded vs postponed live candidates."""
    orig = mt._match_states

    def wrapped(obs_idx, prev_lattice=None, max_dist=None, inc_delayed=False):
        if prev_lattice is None and mt.max_lattice_width:
            col = mt.lattice[obs_idx - 1]
            live = [m for m in col.values(0) if not m.stop]
            now = mt.expand_now
            exp = [m.logprob for m in live if m.delayed <= now]
            post = [m.logprob for m in live if m.delayed > now]
            W = mt.max_lattice_width
            if exp and post and min(exp) < max(post):
                log.append(('postponed-beats-expanded', obs_idx - 1, sorted(exp), sorted(post)))
            if len(exp) > W:
                srt = sorted((m.logprob for m in live), reverse=True)
                wth = srt[W - 1]
                if any(x < wth for x in exp) and mt.expand_now == 0 and not mt.non_emitting_states:
                    log.append(('more-than-W-plus-ties-expanded', obs_idx - 1, sorted(exp), W))
            log.append(('seen', len(post)))
        return orig(obs_idx, prev_lattice=prev_lattice, max_dist=max_dist, inc_delayed=inc_delayed)
    mt._match_states = wrapped


def case_C07(seed):
    rnd = _rnd(seed, 'C07')
    case = U.gen_case(rnd, width=rnd.choice([1, 1, 2, 3]), n=rnd.choice([4, 5, 5]), grid=(seed % 7 == 3))
    U.quiet()
    n = len(case['trace'])
    viol = []
    # unpruned reference
    cu = copy.deepcopy(case)
    cu['cfg']['max_lattice_width'] = None
    mpu, mtu, resu = run_match(cu)
    ref = U.canon(mtu, resu)
    maxcol = max((sum(len(l) for l in col.o) for col in mtu.lattice.values()), default=0) if mtu.lattice else 0
    # pruned run with monitor
    mp = U.make_map(case['graph'])
    mt = U.make_matcher(mp, case['cfg'], case.get('warmup'))
    log = []
    expanded_set_monitor(mt, log)
    res = mt.match(case['trace'])
    cur = U.canon(mt, res)
    postponed = sum(x[1] for x in log if x[0] == 'seen')
    for x in log:
        if x[0] != 'seen':
            viol.append((f'C07:{x[0]}', f"column {x[1]}: expanded {x[2]} vs {x[3]}", {'case': U.case_repr(case), 'monitor': list(x)}))
            break

    def worse(a, b, what):
        # a must not be better than b
        if a['idx'] > b['idx']:
            return f"{what}: matched index {a['idx']} > {b['idx']}"
        if a['states'] and b['states'] and a['idx'] == n - 1 and b['idx'] == n - 1 and a['best'] > b['best'] + 1e-9 * (1 + abs(b['best'])):
            return f"{what}: best log-probability {a['best']} > {b['best']}"
        return None
    w = worse(cur, ref, f"pruned (W={case['cfg']['max_lattice_width']}) vs unpruned")
    if w and not viol:
        viol.append(('C07:pruned-better-than-unpruned' + (':with-non-emitting-states' if case['cfg'].get('non_emitting_states') else
                                                           (':with-going-back-penalties' if case['cfg'].get('avoid_goingback', True) else '')),
                     w, {'case': U.case_repr(case), 'pruned': cur, 'unpruned': ref}))
    # widening sequence on the same matcher
    W = case['cfg']['max_lattice_width']
    seq = sorted(W + rnd.randint(0, 3) for _ in range(rnd.randint(1, 3)))
    prev = cur
    for w2 in seq:
        try:
            r2 = mt.increase_max_lattice_width(w2)
        except Exception as e:
            break
        c2 = U.canon(mt, r2)
        bad = None
        if c2['idx'] < prev['idx'] or (prev['states'] and not c2['states']):
            bad = f"widening to {w2} shortened the matched prefix: {prev['idx']} -> {c2['idx']}"
        elif prev['states'] and c2['states'] and prev['idx'] == n - 1 and c2['idx'] == n - 1 and c2['best'] < prev['best'] - 1e-9 * (1 + abs(prev['best'])):
            bad = f"widening to {w2} lowered the best log-probability: {prev['best']} -> {c2['best']}"
        if bad and not viol:
            viol.append(('C07:widening-not-monotone', bad, {'case': U.case_repr(case), 'widths': [W] + seq, 'before': prev, 'after': c2}))
        prev = c2
    # coincides with the unpruned run once W >= number of candidates
    if not viol and maxcol:
        cb = copy.deepcopy(case)
        cb['cfg']['max_lattice_width'] = maxcol + 1
        mpb, mtb, resb = run_match(cb)
        big = U.canon(mtb, resb)
        if big['idx'] != ref['idx'] or not close(big['best'], ref['best'], 1e-9, 1e-9):
            viol.append(('C07:large-width-differs-from-unpruned', f"W={maxcol + 1}: idx {big['idx']} best {big['best']} vs unpruned idx {ref['idx']} best {ref['best']}",
                         {'case': U.case_repr(case), 'large': big, 'unpruned': ref}))
    return {'nontrivial': postponed > 0, 'violations': viol, 'sample': U.case_repr(case)}


# ================================================================================================== C08
def case_C08(seed):
    rnd = _rnd(seed, 'C08')
    case = U.gen_case(rnd, trace_len=rnd.choice([2, 3, 4, 5]))
    U.quiet()
    n = len(case['trace'])
    mp1, mt1, res1 = run_match(dict(case, warmup=None))      # the one-shot reference runs on a fresh matcher
    one = U.canon(mt1, res1)
    cuts = sorted(set(rnd.randint(1, n - 1) for _ in range(rnd.randint(1, 2)))) if n > 1 else []
    if cuts and seed % 4 == 1:
        # 'any split points': an extension by zero observations (the caller polls and no new fix has arrived yet)
        cuts = sorted(cuts + [cuts[seed % len(cuts)]])
    mp = U.make_map(case['graph'])
    mt = U.make_matcher(mp, case['cfg'], case.get('warmup'))
    viol = []
    try:
        res = mt.match(case['trace'][:cuts[0]] if cuts else case['trace'])
        for c in cuts[1:] + [n]:
            res = mt.match(case['trace'][:c], expand=True)
    except Exception as e:
        return {'nontrivial': False, 'violations': [('C08:incremental-raised', f"cuts {cuts}: {e!r}",
                                                     {'case': U.case_repr(case), 'cuts': cuts, 'error': repr(e)})] if cuts else [],
                'sample': U.case_repr(case)}
    inc = U.canon(mt, res)
    if cuts and (inc['idx'] != one['idx'] or inc['keys'] != one['keys'] or
                 any(not close(a, b, 1e-9, 1e-9) for a, b in zip(inc['lp'], one['lp']))):
        viol.append(('C08:incremental-differs-from-one-shot', f"cuts {cuts}: incremental idx {inc['idx']} keys {inc['keys']} vs one-shot idx {one['idx']} keys {one['keys']}",
                     {'case': U.case_repr(case), 'cuts': cuts, 'incremental': inc, 'oneshot': one}))
    return {'nontrivial': bool(cuts) and one['idx'] >= cuts[0], 'violations': viol, 'sample': {'case': U.case_repr(case), 'cuts': cuts}}


# ================================================================================================== C09
def case_C09(seed):
    rnd = _rnd(seed, 'C09')
    case = U.gen_case(rnd, grid=(seed % 6 == 4))
    U.quiet()
    dbg = rnd.random() < 0.4        # 'any sequence of operations' includes running with the documented DEBUG level
    lg = logging.getLogger("be.kuleuven.cs.dtai.mapmatching")
    old_level = lg.level
    h = logging.NullHandler()
    if dbg:
        lg.addHandler(h)
        lg.setLevel(logging.DEBUG)
    try:
        return _case_C09(rnd, case, dbg)
    finally:
        lg.setLevel(old_level)
        lg.removeHandler(h)


def _case_C09(rnd, case, dbg):
    mp = U.make_map(case['graph'])
    mt = U.make_matcher(mp, case['cfg'], case.get('warmup'))
    ops = gen_history(rnd, case, allow_cwd=True)
    viol, done = [], []
    nt = False
    for op in ops:
        try:
            res = apply_op(mt, case, op)
        except Exception as e:
            done.append(op + ('raised ' + type(e).__name__,))
            res = None
            ended = True
        else:
            ended = False
            if res == 'skipped':
                continue
            done.append(op)
        bad = O.well_formed(mt)
        if len(done) >= 2:
            nt = True
        if bad:
            # the clause with recorded findings (F11/F11b) last: it must not mask another failed clause of the same lattice
            bad.sort(key=lambda b: b[0] == 'live-only-if-predecessor-live')
            cl = bad[0][0]
            key = f"C09:{cl}"
            if cl == 'live-only-if-predecessor-live' and 'widen' in [o[0] for o in done]:
                key = 'C09:live-only-if-predecessor-live:after-widen'
            viol.append((key, f"after {done}: {bad[0][1]}" + (f" (+{len(bad) - 1} more)" if len(bad) > 1 else ''),
                         {'case': U.case_repr(case), 'ops': [list(map(str, o)) for o in done], 'failed': [list(b) for b in bad[:5]]}))
            break
        if ended:
            break
    return {'nontrivial': nt, 'violations': viol, 'sample': {'case': U.case_repr(case), 'ops': ops, 'debug_level': dbg}}


# ================================================================================================== C10 (in-process part)
def permute_graph(rnd, g):
    items = list(g.items())
    rnd.shuffle(items)
    out = {}
    for k, (p, nb) in items:
        nb = list(nb)
        rnd.shuffle(nb)
        out[k] = (p, nb)
    return out


def case_C10(seed):
    rnd = _rnd(seed, 'C10')
    case = U.gen_case(rnd)
    U.quiet()
    mp, mt, res = run_match(case)
    a = U.canon(mt, res)
    viol = []
    tie = False
    if mt.lattice:
        for col in mt.lattice.values():
            for lay in col.o:
                vals = sorted(m.logprob for m in lay.values() if not m.stop)
                if any(x == y for x, y in zip(vals, vals[1:])):
                    tie = True

    def best_last(mt_):
        # the k best live matchings of the last columns (what continue_with_distance() jumps on from): a selection by
        # probability, so without exact ties it cannot depend on the order in which the map lists nodes and neighbours
        import io, contextlib
        if not mt_.lattice:
            return None
        with contextlib.redirect_stdout(io.StringIO()):
            try:
                return [sorted((o_, str(m.key), round(m.logprob, 12)) for o_, l_ in mt_.best_last_matches(k=k_, nb_obs=3).items() for m in l_) for k_ in (1, 2)]
            except Exception as e:
                return ('raised', type(e).__name__)
    a_bl = best_last(mt)
    # exact ties among the entries that selection looks at (all layers of the last matched columns)
    tie_bl = False
    if mt.lattice:
        last_ = (len(mt.lattice) - 1) if mt.early_stop_idx is None else (mt.early_stop_idx - 1)
        for ci in range(max(0, last_ - 3), last_ + 1):
            if ci in mt.lattice:
                vals = sorted(m.logprob for lay in mt.lattice[ci].o for m in lay.values() if not m.stop)
                if any(x == y for x, y in zip(vals, vals[1:])):
                    tie_bl = True
    for rep in range(2):
        c2 = copy.deepcopy(case)
        c2['graph'] = permute_graph(rnd, case['graph'])
        mp2, mt2, res2 = run_match(c2)
        b = U.canon(mt2, res2)
        if not tie_bl and a_bl != best_last(mt2) and not viol:
            viol.append(('C10:best-last-matchings-depend-on-map-order', f"best_last_matches(k=1,2): {a_bl} vs {best_last(mt2)} after permuting node and neighbour order (no exact tie among the entries of the last columns)",
                         {'case': U.case_repr(case), 'permuted_graph': U.case_repr(c2)['graph']}))
            break
        if a['idx'] != b['idx'] or not close(a['best'], b['best'], 1e-12, 1e-12):
            # exact ties may legitimately be broken by map order, but only when width pruning / ne pruning can see them
            viol.append(('C10:result-depends-on-map-order', f"idx/best {a['idx']}/{a['best']} vs {b['idx']}/{b['best']} after permuting node and neighbour order",
                         {'case': U.case_repr(case), 'permuted_graph': U.case_repr(c2)['graph'], 'a': a, 'b': b, 'exact_tie_seen': tie}))
            break
    return {'nontrivial': tie or len(case['graph']) >= 3, 'violations': viol, 'sample': U.case_repr(case)}


# ================================================================================================== C16
def transform_case(case, kind, rnd, k=None):
    c = copy.deepcopy(case)
    g = c['graph']
    if kind == 'relabel':
        keys = list(g.keys())
        style = rnd.choice(['str', 'int0', 'int100', 'strempty'])
        if style == 'str' or (style == 'strempty' and False):
            new = [f"n{v}" for v in keys]
        elif style == 'int0':
            new = list(range(0, len(keys)))                  # includes the label 0
        elif style == 'strempty':
            new = [''] + [f"s{i}" for i in range(1, len(keys))]    # includes the empty string
        else:
            new = list(range(100, 100 + len(keys)))
        rnd.shuffle(new)
        mp = dict(zip(keys, new))
        # pure renaming: listing order is kept, so ties are broken identically and the path must be the same up to renaming
        c['graph'] = {mp[a]: (p, [mp[b] for b in nb]) for a, (p, nb) in g.items()}
        c['relabel'] = mp
    elif kind == 'reorder':
        c['graph'] = permute_graph(rnd, g)
    elif kind == 'swap':
        c['graph'] = {a: ((p[1], p[0]), nb) for a, (p, nb) in g.items()}
        c['trace'] = [(p[1], p[0]) for p in c['trace']]
    elif kind == 'scale':
        s = 2.0 ** k
        c['graph'] = {a: ((p[0] * s, p[1] * s), nb) for a, (p, nb) in g.items()}
        c['trace'] = [(p[0] * s, p[1] * s) for p in c['trace']]
        for f in ('obs_noise', 'obs_noise_ne', 'dist_noise', 'max_dist', 'max_dist_init'):
            if c['cfg'].get(f) is not None:
                c['cfg'][f] = c['cfg'][f] * s
    elif kind == 'translate':
        dy, dx = k
        c['graph'] = {a: ((p[0] + dy, p[1] + dx), nb) for a, (p, nb) in g.items()}
        c['trace'] = [(p[0] + dy, p[1] + dx) for p in c['trace']]
    return c


def cutoff_knife_edge(case, tol=1e-9):
    """True when some observation is within tol of a distance cut-off from some edge / node (a discrete decision on a
    knife edge that rounding may flip)."""
    g = case['graph']
    cfg = case['cfg']
    cuts = [c for c in (cfg.get('max_dist'), cfg.get('max_dist_init')) if c]
    if not cuts:
        return False
    for p in case['trace']:
        ds = [O.dist(p, v[0]) for v in g.values()]
        for a, (pa, nb) in g.items():
            for b in nb:
                if b in g and b != a:
                    ds.append(O.nearest(p, pa, g[b][0])[0])
        for d in ds:
            if any(abs(d - c) <= tol * (1 + c) for c in cuts):
                return True
    return False


def parallel_tie(case):
    """non-emitting states on, and some observation segment (two consecutive fixes) is EXACTLY parallel to a road: the planar
    segment-to-segment routine then has several equally near point pairs to choose from, and which one it returns is decided by
    the last bits of the computed distances (finding F23)"""
    if not case['cfg'].get('non_emitting_states'):
        return False
    g, tr = case['graph'], case['trace']
    for p, q in zip(tr, tr[1:]):
        dx, dy = q[0] - p[0], q[1] - p[1]
        if dx == 0 and dy == 0:
            continue
        for a, (pa, nb) in g.items():
            for b in nb:
                if b in g and b != a:
                    ex, ey = g[b][0][0] - pa[0], g[b][0][1] - pa[1]
                    if (ex or ey) and dx * ey - dy * ex == 0:
                        return True
    return False


def start_tie(case):
    """two start candidates (edges, or nodes in node mode) at exactly the same distance from the first observation"""
    g = case['graph']
    p = case['trace'][0]
    if case['cfg'].get('only_edges', True) or case['cfg']['family'] == 'distance':
        ds = sorted(O.nearest(p, pa, g[b][0])[0] for a, (pa, nb) in g.items() for b in nb if b in g and b != a)
    else:
        ds = sorted(O.dist(p, v[0]) for v in g.values())
    return any(x == y for x, y in zip(ds, ds[1:]))


def case_C16(seed):
    rnd = _rnd(seed, 'C16')
    case = U.gen_case(rnd)
    U.quiet()
    mp, mt, res = run_match(case)
    a = U.canon(mt, res)
    viol = []
    knife = [0]
    kinds = [('relabel', None), ('reorder', None), ('swap', None), ('scale', rnd.choice([-8, -3, -1, 1, 3, 10, 20]))]
    exact = all(float(c * 1024).is_integer() for v in case['graph'].values() for c in v[0]) and all(float(c * 1024).is_integer() for p in case['trace'] for c in p)
    if case['cfg'].get('max_lattice_width') is None and exact:      # 'exactly representable': every translated coordinate is exact
        kinds.append(('translate', (rnd.choice([0, 1024.0, -4096.0]), rnd.choice([512.0, 2.0 ** 20, -64.0]))))
    for kind, k in kinds:
        c2 = transform_case(case, kind, rnd, k)
        try:
            mp2, mt2, res2 = run_match(c2)
        except Exception as e:
            viol.append((f'C16:{kind}-raised', f"{kind} {k}: {e!r}", {'case': U.case_repr(case), 'transform': [kind, str(k)]}))
            break
        b = U.canon(mt2, res2)
        # translation and scaling are exact for + - * / sqrt but not for scipy's logpdf / log: rounding-level tolerance
        # (a translation by 2^20 leaves ~2e-10 absolute rounding in projected positions: 1e-6 relative on probabilities)
        tol = 1e-6 if kind == 'translate' else (1e-9 if kind == 'scale' else 1e-12)
        same_path = True
        if kind == 'relabel':
            mpx = c2['relabel']

            def ren(s):
                return tuple(mpx[x] for x in s) if isinstance(s, tuple) else mpx[s]
            same_path = [ren(s) for s in (a['states'] or [])] == (b['states'] or [])
        elif kind in ('swap', 'scale'):
            same_path = a['states'] == b['states']
        lp_same = len(a['lp']) == len(b['lp']) and all(close(x, y, 1e-9, 1e-9) for x, y in zip(a['lp'], b['lp']))
        if kind in ('swap', 'scale') and not same_path and (lp_same or (a['idx'] == b['idx'] and close(a['best'], b['best'], tol, tol))):
            same_path = True        # knife edge: equally probable alternatives, choice flipped by rounding (counted, not a violation)
            knife[0] += 1
        differs = a['idx'] != b['idx'] or not close(a['best'], b['best'], tol, tol) or (not same_path and kind not in ('translate', 'reorder'))
        if differs and kind in ('scale', 'translate') and cutoff_knife_edge(case):
            knife[0] += 1           # knife edge: some candidate lies within 1e-9 of a distance cut-off
            differs = False
        if differs and kind in ('scale', 'translate') and case['cfg'].get('max_lattice_width') and (a['near_tie'] or b['near_tie']):
            knife[0] += 1           # knife edge: a (near-)tie at the pruning cut is flipped by rounding
            differs = False
        if differs:
            key = f'C16:{kind}-changes-result'
            if kind in ('translate', 'scale') and a['idx'] == b['idx'] and same_path and parallel_tie(case):
                key = 'C16:probability-depends-on-rounding-for-a-fix-segment-parallel-to-a-road'
            if kind == 'relabel' and not (a['idx'] == b['idx'] and close(a['best'], b['best'], tol, tol)) and \
                    case['cfg'].get('non_emitting_states') and case['cfg'].get('max_lattice_width') and start_tie(case):
                # label order decides among start candidates tied in distance (F9c); with non-emitting states AND a width the
                # order-dependent heuristics of the non-emitting search can amplify that into a different result
                key = 'C16:relabel-changes-result:tied-start-candidates+non-emitting+width'
            if kind == 'relabel' and a['idx'] == b['idx'] and close(a['best'], b['best'], tol, tol):
                # index and probabilities agree, the two paths are equally probable: the tie was broken by label order
                key = 'C16:relabel-exact-tie-broken-by-label-order'
            viol.append((key, f"{kind} {k}: idx/best {a['idx']}/{a['best']} -> {b['idx']}/{b['best']}, same path: {same_path}",
                         {'case': U.case_repr(case), 'transform': [kind, str(k)], 'a': a, 'b': b}))
            break
    if not viol:
        # the planar primitives themselves commute with the maps of the plane the property names (no matcher in between):
        # axis swap, scaling by 2^k, exact translation.  Exactly parallel / collinear / touching pairs occur by construction.
        from leuvenmapmatching.util import dist_euclidean as de
        r3 = random.Random(seed * 31 + 7)
        q = lambda: (r3.randint(-8, 16) / 4, r3.randint(-8, 16) / 4)
        for _ in range(10):
            f1, f2, t1 = q(), q(), q()
            if r3.random() < 0.5:
                lam = r3.choice([1, 1, 0.5, 2, -1, -0.5])
                t2 = (t1[0] + lam * (f2[0] - f1[0]), t1[1] + lam * (f2[1] - f1[1]))       # parallel (quarter grid: exact)
            else:
                t2 = q()
            maps = [('swap', lambda p: (p[1], p[0])), ('scale 8', lambda p: (p[0] * 8, p[1] * 8)), ('translate (64,-32)', lambda p: (p[0] + 64.0, p[1] - 32.0))]
            base = de.distance_segment_to_segment(f1, f2, t1, t2)
            basep = de.distance_point_to_segment(t1, f1, f2)
            for nm, T in maps:
                k_ = 8.0 if nm.startswith('scale') else 1.0
                got = de.distance_segment_to_segment(T(f1), T(f2), T(t1), T(t2))
                if not nm.startswith('swap'):
                    # translation and (observed: last-bit differences in the projected points) scaling are not bit-exact: among several
                    # equally near pairs (overlapping parallel segments) another one may be returned; required: the same distance,
                    # realised by the returned points, positions in range
                    ok = close(got[0], base[0] * k_, 1e-9, 1e-9) and close(math.hypot(got[1][0] - got[2][0], got[1][1] - got[2][1]), got[0], 1e-9, 1e-9) \
                        and 0 <= got[3] <= 1 and 0 <= got[4] <= 1
                else:
                    # the axis swap is exact (sums and products commute): the very same pair must come back
                    ok = close(got[0], base[0] * k_, 1e-12, 1e-12) and all(close(a_, b_, 1e-12, 1e-12) for a_, b_ in zip(got[1], T(base[1]))) \
                        and all(close(a_, b_, 1e-12, 1e-12) for a_, b_ in zip(got[2], T(base[2]))) and close(got[3], base[3], 1e-12, 1e-12) \
                        and close(got[4], base[4], 1e-12, 1e-12)
                gotp = de.distance_point_to_segment(T(t1), T(f1), T(f2))
                okp = close(gotp[0], basep[0] * k_, 1e-9, 1e-9) and all(close(a_, b_, 1e-9, 1e-9) for a_, b_ in zip(gotp[1], T(basep[1]))) and close(gotp[2], basep[2], 1e-9, 1e-9)
                if not (ok and okp):
                    fn_ = 'distance_segment_to_segment' if not ok else 'distance_point_to_segment'
                    viol.append((f'C16:{fn_}-does-not-commute-with-{nm.split(" ")[0]}',
                                 f"{fn_}{(f1, f2, t1, t2) if not ok else (t1, f1, f2)} = {base if not ok else basep}; after {nm}: {got if not ok else gotp}",
                                 {'inputs': [f1, f2, t1, t2], 'map': nm, 'before': repr(base if not ok else basep), 'after': repr(got if not ok else gotp)}))
                    break
            if viol:
                break
            # lines_parallel (the criterion by which connect_parallelroads links roads: directions within one degree, segments within
            # d) commutes with the same maps.  Grid pairs (axis-aligned lines occur by construction) and a nearly parallel pair
            # whose direction is steep in one of the two coordinates
            ang = math.radians(r3.choice([0.0, 0.1, 0.3, 0.5, 0.8, 1.3, 2.0]))
            dv = r3.choice([(10.0, r3.choice([0.0, 0.25, 1.0])), (r3.choice([0.0, 0.25, 1.0]), 10.0), (5.0, 5.0)])
            h1 = (0.5, 0.25)
            h2 = (h1[0] + dv[0] * math.cos(ang) - dv[1] * math.sin(ang), h1[1] + dv[0] * math.sin(ang) + dv[1] * math.cos(ang))
            fold = lambda a_, b_: math.atan2(abs(b_[1] - a_[1]), abs(b_[0] - a_[0]))
            for (a_, b_, c_, d_) in ((f1, f2, t1, t2), ((0.0, 0.0), dv, h1, h2)):
                if a_ == b_ or c_ == d_ or abs(abs(fold(a_, b_) - fold(c_, d_)) - math.pi / 180) < 1e-6:
                    continue        # zero-length line, or exactly on the one-degree threshold
                for dist in (None, 100.0):
                    b0 = de.lines_parallel(a_, b_, c_, d_, d=dist)
                    for nm, T in maps:
                        k_ = 8.0 if nm.startswith('scale') else 1.0
                        b1 = de.lines_parallel(T(a_), T(b_), T(c_), T(d_), d=None if dist is None else dist * k_)
                        if b0 != b1 and not viol:
                            viol.append((f'C16:lines_parallel-does-not-commute-with-{nm.split(" ")[0]}',
                                         f"lines_parallel{(a_, b_, c_, d_)}, d={dist}: {b0}; after {nm}: {b1}",
                                         {'inputs': [a_, b_, c_, d_], 'd': dist, 'map': nm, 'before': b0, 'after': b1}))
            if viol:
                break
    if not viol and exact and case['cfg'].get('max_lattice_width') is None:
        # a fine-grained map far from the origin: the same map scaled by 2^-11 (a grid unit of 0.5 becomes 2.4e-4), once near
        # the origin and once translated by (2^22, -2^23); every coordinate stays exact, positions carry about 1e-9 absolute
        # rounding at that magnitude (2e-5 of the smallest noise): 1e-3 on the log-probability
        cs = transform_case(case, 'scale', rnd, -11)
        ct = transform_case(cs, 'translate', rnd, (2.0 ** 22, -2.0 ** 23))
        try:
            _, mts, rs = run_match(cs)
            _, mtt, rt = run_match(ct)
            a2, b2 = U.canon(mts, rs), U.canon(mtt, rt)
            if a2['idx'] != b2['idx'] or not close(a2['best'], b2['best'], 1e-3, 1e-3):
                if cutoff_knife_edge(case) or a2['near_tie'] or b2['near_tie']:
                    knife[0] += 1
                else:
                    viol.append(('C16:translate-far-changes-result', f"map scaled by 2^-11: idx/best {a2['idx']}/{a2['best']} near the origin -> "
                                 f"{b2['idx']}/{b2['best']} translated by (2^22, -2^23)",
                                 {'case': U.case_repr(case), 'transform': ['scale 2^-11, then translate', '(2^22, -2^23)'], 'a': a2, 'b': b2}))
        except Exception as e:
            viol.append(('C16:translate-far-raised', f"scaled by 2^-11 and translated by (2^22, -2^23): {e!r}", {'case': U.case_repr(case)}))
    return {'nontrivial': bool(a['states']) and len(a['states']) >= 2, 'violations': viol, 'sample': U.case_repr(case),
            'knife_edge': knife[0]}


# ================================================================================================== C17
def case_C17(seed):
    rnd = _rnd(seed, 'C17')
    case = U.gen_case(rnd, trace_kind=rnd.choice(['onroad', 'onroad', 'walk', 'random', None]))
    case['trace'] = [tuple(p[:2]) for p in case['trace']]       # pairs here; the triples are this suite's own (below)
    if seed % 5 == 1 and len(case['graph']) >= 3:
        # 'every finite map': the map after InMemMap.purge() / del_node() - a node (one without outgoing roads, if there is
        # one) is gone while the neighbour lists of the other nodes still name it
        g_ = case['graph']
        dead = [k for k, (p, nb) in g_.items() if not [b for b in nb if b != k]] or [rnd.choice(sorted(g_, key=str))]
        del g_[dead[0]]
        case['removed_node_still_listed_as_neighbour'] = str(dead[0])
    U.quiet()
    viol = []
    try:
        mp, mt, res = run_match(case)
        a = U.canon(mt, res)
        if not (isinstance(res, tuple) and len(res) == 2 and isinstance(res[0], list) and isinstance(res[1], int)):
            viol.append(('C17:result-is-not-a-(list,index)-pair', f"match returned {res!r}", {'case': U.case_repr(case), 'result': repr(res)}))
        if seed % 3 == 0 and not viol:
            # 'matching returns without raising' also when the same matcher is asked again: another match on a prefix,
            # an extension, a widening - whatever the first call returned (including "nothing matched")
            mt2 = U.make_matcher(U.make_map(case['graph']), case['cfg'])
            ops2 = gen_history(rnd, case, allow_cwd=False)
            done2 = []
            for op in ops2 + [('extend', len(case['trace'])), ('widen', (case['cfg'].get('max_lattice_width') or 1) + 1)]:
                done2.append(op)
                r2 = apply_op(mt2, case, op)
                if not (r2 is None or r2 == 'skipped' or (isinstance(r2, tuple) and len(r2) == 2 and isinstance(r2[0], list) and isinstance(r2[1], int))):
                    viol.append(('C17:result-is-not-a-(list,index)-pair', f"after {done2}: returned {r2!r}", {'case': U.case_repr(case), 'ops': done2}))
                    break
            if not viol:
                # ... and when the matcher is then given ANOTHER, longer trace in a plain call
                done2.append(('match-another-longer-trace',))
                r3 = mt2.match(list(case['trace']) + list(reversed(case['trace'])))
                if not (isinstance(r3, tuple) and len(r3) == 2 and isinstance(r3[0], list) and isinstance(r3[1], int)):
                    viol.append(('C17:result-is-not-a-(list,index)-pair', f"after {done2}: returned {r3!r}", {'case': U.case_repr(case), 'ops': done2}))
    except Exception as e:
        import traceback
        viol.append((f'C17:match-raised-{type(e).__name__}', f"match raised {e!r}", {'case': U.case_repr(case), 'error': repr(e),
                                                                                        'traceback': traceback.format_exc()[-800:]}))
        return {'nontrivial': True, 'violations': viol, 'sample': U.case_repr(case)}
    c3 = copy.deepcopy(case)
    c3['trace'] = [tuple(p) + (float(i * 7),) for i, p in enumerate(case['trace'])]
    try:
        mp3, mt3, res3 = run_match(c3)
        b = U.canon(mt3, res3)
        if a['idx'] != b['idx'] or a['states'] != b['states'] or a['lp'] != b['lp']:
            viol.append(('C17:triples-differ-from-pairs', f"pairs: idx {a['idx']} {a['states']} {a['lp']}; triples: idx {b['idx']} {b['states']} {b['lp']}",
                         {'case': U.case_repr(case), 'pairs': a, 'triples': b}))
    except Exception as e:
        viol.append((f'C17:triples-raised-{type(e).__name__}', f"(y,x,time) trace raised {e!r}", {'case': U.case_repr(case), 'error': repr(e)}))
    # same map placed on the sphere: totality in the lat-lon metric
    try:
        g2 = {a_: ((50.0 + p[0] * 1e-3, 4.0 + p[1] * 1e-3), nb) for a_, (p, nb) in case['graph'].items()}
        tr2 = [(50.0 + p[0] * 1e-3, 4.0 + p[1] * 1e-3) for p in case['trace']]
        cfg2 = dict(case['cfg'])
        for f in ('obs_noise', 'obs_noise_ne', 'dist_noise', 'max_dist', 'max_dist_init'):
            if cfg2.get(f) is not None:
                cfg2[f] = cfg2[f] * 100.0
        mpl = U.make_map(g2, use_latlon=True)
        r = U.make_matcher(mpl, cfg2).match(tr2)
        r3 = U.make_matcher(U.make_map(g2, use_latlon=True), cfg2).match([p + (float(i),) for i, p in enumerate(tr2)])
        if (r[0], r[1]) != (r3[0], r3[1]):
            viol.append(('C17:latlon-triples-differ-from-pairs', f"lat-lon pairs {r} vs triples {r3}", {'case': U.case_repr(case)}))
        if not (isinstance(r, tuple) and isinstance(r[0], list)):
            viol.append(('C17:latlon-result-is-not-a-(list,index)-pair', f"lat-lon match returned {r!r}", {'case': U.case_repr(case)}))
    except Exception as e:
        import traceback
        viol.append((f'C17:latlon-match-raised-{type(e).__name__}', f"lat-lon match raised {e!r}",
                     {'case': U.case_repr(case), 'error': repr(e), 'traceback': traceback.format_exc()[-800:]}))
    return {'nontrivial': bool(a['states']), 'violations': viol[:1], 'sample': U.case_repr(case)}


# ================================================================================================== C19
def case_C19(seed):
    rnd = _rnd(seed, 'C19')
    case = U.gen_case(rnd, grid=(seed % 7 == 3))
    lg = logging.getLogger("be.kuleuven.cs.dtai.mapmatching")
    out = []
    ops = gen_history(rnd, case, allow_cwd=False)
    for level in (logging.ERROR, logging.DEBUG):
        old = lg.level
        h = logging.NullHandler()
        lg.addHandler(h)
        lg.setLevel(level)
        try:
            mp = U.make_map(case['graph'])
            mt = U.make_matcher(mp, case['cfg'], case.get('warmup'))
            rr = []
            for op in ops:
                try:
                    r = apply_op(mt, case, op)
                except Exception as e:
                    rr.append(('raised', type(e).__name__))
                    break
                if r is None or r == 'skipped':
                    continue
                c_ = U.canon(mt, r)
                if mt.lattice:
                    # the selection continue_with_distance() starts from (the k best live matchings of the last columns)
                    import io, contextlib
                    with contextlib.redirect_stdout(io.StringIO()):
                        try:
                            c_['best_last'] = [sorted((o_, str(m.key), m.logprob) for o_, l_ in mt.best_last_matches(k=k_, nb_obs=2).items() for m in l_) for k_ in (1, 2)]
                        except Exception as e:
                            c_['best_last'] = ('raised', type(e).__name__)
                rr.append(c_)
            out.append(rr)
            cut = any(m.stop for col in (mt.lattice or {}).values() for lay in col.o for m in lay.values())
        finally:
            lg.setLevel(old)
            lg.removeHandler(h)
    viol = []
    if out[0] != out[1]:
        j = next((i for i, (x, y) in enumerate(zip(out[0], out[1])) if x != y), min(len(out[0]), len(out[1])))
        key19 = 'C19:debug-logging-changes-result'
        x, y = (out[0][j] if j < len(out[0]) else None), (out[1][j] if j < len(out[1]) else None)
        if isinstance(x, dict) and isinstance(y, dict) and x['idx'] == y['idx'] and x['best'] == y['best'] \
                and [k for k in x['keys'] if k[-1] == 0] == [k for k in y['keys'] if k[-1] == 0] \
                and not case['cfg'].get('only_edges', True) and case['cfg'].get('non_emitting_states') and any(o[0] == 'widen' for o in ops):
            key19 = 'C19:trailing-non-emitting-run-differs-under-debug'
        viol.append((key19, f"ops {ops}: result #{j} at ERROR {out[0][j] if j < len(out[0]) else None} vs at DEBUG {out[1][j] if j < len(out[1]) else None}",
                     {'case': U.case_repr(case), 'ops': ops, 'error_level': out[0], 'debug_level': out[1]}))
    return {'nontrivial': cut, 'violations': viol, 'sample': {'case': U.case_repr(case), 'ops': ops}}


# ================================================================================================== C03: a trace that comes from a file
def gpx_suite(chk, tier, seed):
    """'One emitting state per observation, index = last observation' is stated for the trace the caller hands over; when it is
    handed over as a GPX file (match_gpx), the observations are the track points of the file: all of them, in order, repeats
    included (a vehicle that stands still logs the same fix, even the same time stamp, more than once)."""
    import os, tempfile, shutil, datetime as _dt
    from leuvenmapmatching.util.gpx import gpx_to_path
    from leuvenmapmatching.map.inmem import InMemMap
    from leuvenmapmatching.matcher.distance import DistanceMatcher
    U.quiet()
    rnd = random.Random(seed * 1013 + 3)
    n_cases = 60 if tier == 'quick' else 1500
    d = tempfile.mkdtemp(prefix='verif_gpx_')
    nontriv = 0
    try:
        for ci in range(n_cases):
            lat0, lon0 = rnd.choice([(50.0, 4.0), (-35.0, 120.0), (0.001, 0.001)])
            g = {1: ((lat0, lon0), [2]), 2: ((lat0, lon0 + 0.002), [1, 3]), 3: ((lat0 + 0.001, lon0 + 0.004), [2])}
            n = rnd.randint(2, 7)
            t0 = _dt.datetime(2020, 1, 1, 12, 0, 0)
            pts = []
            for i in range(n):
                pts.append((lat0 + rnd.uniform(-1e-4, 1e-4) + 0.00015 * i * (i > n // 2), lon0 + 0.0035 * i / max(1, n - 1) + rnd.uniform(-1e-5, 1e-5), t0 + _dt.timedelta(seconds=5 * i)))
            # repeats: the very same track point again (same time stamp), and the same position with a later time stamp
            k = rnd.randrange(0, n)
            style = rnd.choice(['exact', 'exact', 'later', 'none'])
            if style == 'exact':
                pts.insert(k + 1, pts[k])
            elif style == 'later':
                pts.insert(k + 1, (pts[k][0], pts[k][1], pts[k][2] + _dt.timedelta(seconds=1)))
            if style != 'none':
                nontriv += 1
            fn = os.path.join(d, f"t{ci}.gpx")
            with open(fn, 'w') as fh:
                fh.write('<?xml version="1.0" encoding="UTF-8"?>\n<gpx version="1.1" creator="verif" xmlns="http://www.topografix.com/GPX/1/1">\n<trk><trkseg>\n')
                for la, lo, t in pts:
                    fh.write(f'<trkpt lat="{la!r}" lon="{lo!r}"><time>{t.strftime("%Y-%m-%dT%H:%M:%SZ")}</time></trkpt>\n')
                fh.write('</trkseg></trk>\n</gpx>\n')
            try:
                got = gpx_to_path(fn)
                ok = got is not None and len(got) == len(pts) and all(abs(a[0] - b[0]) < 1e-12 and abs(a[1] - b[1]) < 1e-12 for a, b in zip(got, pts))
                msg = None if ok else f"gpx_to_path returned {None if got is None else len(got)} points for a file with {len(pts)} track points (repeat: {style} after #{k})"
                if ok:
                    mk = lambda: DistanceMatcher(InMemMap('gpx', use_latlon=True, use_rtree=False, graph=g), obs_noise=30, max_dist=200, non_emitting_states=(ci % 2 == 0))
                    r1 = mk().match_gpx(fn, unique=False)
                    r2 = mk().match([(a, b) for a, b, _ in pts], unique=False)
                    if r1 != r2:
                        msg = f"match_gpx -> {r1}, match on the same {len(pts)} points -> {r2}"
            except Exception as e:
                msg = f"raised {e!r}"
            if msg:
                chk.violation(key='C03:trace-from-a-gpx-file-loses-or-reorders-observations', text=msg,
                              replay={'kind': 'bounded', 'suite': 'gpx', 'points': [[a, b, str(t)] for a, b, t in pts], 'repeat': style, 'after': k})
    finally:
        shutil.rmtree(d, ignore_errors=True)
    chk.bounded_suite('trace-from-a-gpx-file', n_cases * 2, nontriv, [],
                      rule="GPX files written by the suite (2-8 track points near three anchors, time stamps 5 s apart; in three of four files one track point is "
                           "repeated, with the same or a later time stamp): gpx_to_path returns every track point in order, and match_gpx returns what match returns "
                           "for the same points (DistanceMatcher on a three-node lat-lon map, non-emitting states on/off); non-trivial = file with a repeated point", bounds='')
