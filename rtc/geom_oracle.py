"""Independent reference computations for planar geometry (exact rational arithmetic where possible).
Written from the statement of C13, not from the code."""
from fractions import Fraction as Fr
import math


def F(x):
    return x if isinstance(x, Fr) else Fr(x) if isinstance(x, int) else Fr(repr(float(x)))


def exact(p):
    return (Fr(float(p[0])), Fr(float(p[1])))      # exact value of the binary floats


def nearest_on_segment(p, s1, s2):
    """exact nearest point of segment [s1,s2] to p: returns (t, point, dist2)"""
    p, s1, s2 = exact(p), exact(s1), exact(s2)
    dx, dy = s2[0] - s1[0], s2[1] - s1[1]
    l2 = dx * dx + dy * dy
    if l2 == 0:
        t = Fr(0)
    else:
        t = ((p[0] - s1[0]) * dx + (p[1] - s1[1]) * dy) / l2
        t = max(Fr(0), min(Fr(1), t))
    q = (s1[0] + t * dx, s1[1] + t * dy)
    return t, q, (q[0] - p[0]) ** 2 + (q[1] - p[1]) ** 2


def segments_intersect(f1, f2, t1, t2):
    f1, f2, t1, t2 = exact(f1), exact(f2), exact(t1), exact(t2)

    def orient(a, b, c):
        v = (b[0] - a[0]) * (c[1] - a[1]) - (b[1] - a[1]) * (c[0] - a[0])
        return (v > 0) - (v < 0)

    def on(a, b, c):
        return min(a[0], b[0]) <= c[0] <= max(a[0], b[0]) and min(a[1], b[1]) <= c[1] <= max(a[1], b[1])
    o1, o2, o3, o4 = orient(f1, f2, t1), orient(f1, f2, t2), orient(t1, t2, f1), orient(t1, t2, f2)
    if o1 != o2 and o3 != o4:
        return True
    if o1 == 0 and on(f1, f2, t1):
        return True
    if o2 == 0 and on(f1, f2, t2):
        return True
    if o3 == 0 and on(t1, t2, f1):
        return True
    if o4 == 0 and on(t1, t2, f2):
        return True
    return False


def seg_seg_dist2(f1, f2, t1, t2):
    """exact squared minimum distance between two segments"""
    if segments_intersect(f1, f2, t1, t2):
        return Fr(0)
    return min(nearest_on_segment(f1, t1, t2)[2], nearest_on_segment(f2, t1, t2)[2],
               nearest_on_segment(t1, f1, f2)[2], nearest_on_segment(t2, f1, f2)[2])


def approx(a, b, rel=1e-9, abs_=1e-12):
    return abs(a - b) <= abs_ + rel * max(abs(a), abs(b))


def check_p2s(p, s1, s2, res, rel=1e-9):
    """res = (dist, pi, ti) from the code under test; returns list of failed clause names"""
    dist, pi, ti = res
    t, q, d2 = nearest_on_segment(p, s1, s2)
    scale = max(1e-300, max(abs(float(c)) for c in (*p[:2], *s1[:2], *s2[:2])))
    bad = []
    if not (0.0 <= ti <= 1.0):
        bad.append('t-in-[0,1]')
    if not approx(dist, math.sqrt(float(d2)), rel, 1e-9 * scale):
        bad.append('true-distance')
    if math.hypot(pi[0] - float(q[0]), pi[1] - float(q[1])) > 1e-7 * scale + 1e-9 * math.sqrt(float(d2)):
        bad.append('nearest-point')
    ex1, ex2 = exact(s1), exact(s2)
    if math.hypot(pi[0] - float(ex1[0] + Fr(ti) * (ex2[0] - ex1[0])), pi[1] - float(ex1[1] + Fr(ti) * (ex2[1] - ex1[1]))) > 1e-7 * scale:
        bad.append('point-at-t')
    return bad


def check_s2s(f1, f2, t1, t2, res, rel=1e-9):
    d, pf, pt_, uf, ut = res
    d2 = seg_seg_dist2(f1, f2, t1, t2)
    scale = max(1e-300, max(abs(float(c)) for c in (*f1, *f2, *t1, *t2)))
    bad = []
    if not (0.0 <= uf <= 1.0 and 0.0 <= ut <= 1.0):
        bad.append('range')
    if not approx(d, math.sqrt(float(d2)), rel, 1e-7 * scale):
        bad.append('true-minimum-distance')
    e = [exact(x) for x in (f1, f2, t1, t2)]
    Fp = (float(e[0][0] + Fr(uf) * (e[1][0] - e[0][0])), float(e[0][1] + Fr(uf) * (e[1][1] - e[0][1])))
    Tp = (float(e[2][0] + Fr(ut) * (e[3][0] - e[2][0])), float(e[2][1] + Fr(ut) * (e[3][1] - e[2][1])))
    if math.hypot(pf[0] - Fp[0], pf[1] - Fp[1]) > 1e-7 * scale:
        bad.append('pf-on-f-at-uf')
    if math.hypot(pt_[0] - Tp[0], pt_[1] - Tp[1]) > 1e-7 * scale:
        bad.append('pt-on-t-at-ut')
    if not approx(math.hypot(pf[0] - pt_[0], pf[1] - pt_[1]), math.sqrt(float(d2)), rel, 1e-7 * scale):
        bad.append('points-realise-minimum')
    return bad
