"""Spec functions of the bounded tier, written from the property statements and the documented model
(class docstrings of BaseMatcher / DistanceMatcher / SimpleMatcher), NOT by calling the code under test.
Planar metric only (the lat-lon metric has its own reference in rtc/geo_ref.py)."""
import math
from fractions import Fraction

LOG = math.log


# ------------------------------------------------------------------------------------------ planar geometry (own)
def dist(p, q):
    return math.hypot(p[0] - q[0], p[1] - q[1])


def nearest(p, s1, s2):
    """nearest point of [s1,s2] to p -> (distance, point, t); written from the definition"""
    dx, dy = s2[0] - s1[0], s2[1] - s1[1]
    l2 = dx * dx + dy * dy
    if l2 == 0:
        t = 0.0
    else:
        t = ((p[0] - s1[0]) * dx + (p[1] - s1[1]) * dy) / l2
        t = max(0.0, min(1.0, t))
    q = (s1[0] + t * dx, s1[1] + t * dy)
    return dist(p, q), q, t


# ------------------------------------------------------------------------------------------ map view
class View:
    """Abstract view of a map: nodes label -> (y, x); directed edges set((a, b))."""

    def __init__(self, graph=None, nodes=None, edges=None):
        if graph is not None:
            self.nodes = {k: tuple(v[0]) for k, v in graph.items() if v[0] is not None}
            self.edges = [(a, b) for a, (pa, nb) in graph.items() for b in nb if b in graph and a != b
                          and graph[b][0] is not None and pa is not None]
            # keep listing order but drop duplicates
            seen, e2 = set(), []
            for e in self.edges:
                if e not in seen:
                    seen.add(e)
                    e2.append(e)
            self.edges = e2
        else:
            self.nodes, self.edges = dict(nodes), list(edges)
        self.eset = set(self.edges)
        self.out = {}
        for a, b in self.edges:
            self.out.setdefault(a, []).append(b)

    def succ_edges(self, e):
        """edges the map offers after edge e=(a,b): every edge leaving b (incl. the U-turn (b,a))"""
        return [(e[1], c) for c in self.out.get(e[1], [])]


def is_move(view, s1, s2, linked=None):
    """C04: consecutive states s1 -> s2 are the same state or a move the map offers."""
    if s1 == s2:
        return True
    t1, t2 = isinstance(s1, tuple), isinstance(s2, tuple)
    if t1 and t2:
        if s2[0] == s1[1] and s2 in view.eset:
            return True
        if linked and s2 in linked.get(s1, ()):
            return True
        return False
    if not t1 and not t2:
        return s2 in view.out.get(s1, [])
    if not t1 and t2:
        return s2[0] == s1 and s2 in view.eset
    return s2 == s1[1]


def state_exists(view, s):
    return (s in view.eset) if isinstance(s, tuple) else (s in view.nodes)


# ------------------------------------------------------------------------------------------ documented model
class Model:
    """The documented probabilistic model of the two matcher families (from the docstrings / parameters)."""

    def __init__(self, cfg):
        self.family = cfg['family']
        self.obs_noise = cfg.get('obs_noise', 1)
        self.obs_noise_ne = cfg.get('obs_noise_ne') if cfg.get('obs_noise_ne') is not None else self.obs_noise
        self.max_dist = cfg.get('max_dist') or math.inf
        self.max_dist_init = cfg.get('max_dist_init') or self.max_dist
        self.min_lp = LOG(cfg['min_prob_norm']) if cfg.get('min_prob_norm') else -math.inf
        self.only_edges = True if self.family == 'distance' else cfg.get('only_edges', True)
        self.avoid_goingback = cfg.get('avoid_goingback', True)
        self.ne_factor = LOG(cfg.get('non_emitting_length_factor', 0.75))
        if self.family == 'distance':
            dn = cfg.get('dist_noise', self.obs_noise)
            dn_ne = cfg.get('dist_noise_ne', dn)
            self.beta, self.beta_ne = 2 * dn ** 2, 2 * dn_ne ** 2
            self.sigma, self.sigma_ne = 2 * self.obs_noise ** 2, 2 * self.obs_noise_ne ** 2
            self.gobackonedge = LOG(0.5)
            self.gobacktoedge = LOG(0.5)
            self.notconnected = LOG(0.5)
        else:
            self.gobackonedge = LOG(0.99)
            self.gobacktoedge = LOG(0.5)
            self.transition = LOG(0.9)

    # emission: exp(-d^2 / (2 sigma^2)) for both families (the simple matcher normalises the half-normal density to 1 at 0)
    def lp_obs(self, d, is_ne=False):
        s = self.obs_noise_ne if is_ne else self.obs_noise
        return -d * d / (2 * s * s)

    def stop(self, lp_norm, d):
        return lp_norm < self.min_lp or d > self.max_dist


class St:
    """A state on a path as the spec sees it: label(s), coordinates, projection of the observation."""
    __slots__ = ('key', 'p1', 'p2', 'pi', 'ti', 'opi', 'd_o', 'd_s', 'obs_ne')

    def __init__(self, key, p1, p2=None):
        self.key, self.p1, self.p2 = key, p1, p2
        self.pi, self.ti, self.opi = (p1 if p2 is None else None), (0 if p2 is None else None), None
        self.d_o = self.d_s = 0.0
        self.obs_ne = 0

    @property
    def l1(self):
        return self.key[0] if isinstance(self.key, tuple) else self.key

    @property
    def l2(self):
        return self.key[1] if isinstance(self.key, tuple) else None


def trans_simple(model, prev, cur, prevprev):
    """SimpleMatcher transition: 0 when staying (log .99 when going back on the same edge, if avoid_goingback),
    log .9 when moving (+ log .5 when moving back to the state before the previous one, if avoid_goingback)."""
    if prev.key == cur.key:
        if model.avoid_goingback and cur.ti is not None and prev.ti is not None and cur.ti < prev.ti:
            return model.gobackonedge
        return 0.0
    lp = model.transition
    if model.avoid_goingback and prevprev is not None and prevprev.key == cur.key:
        lp += model.gobacktoedge
    return lp


def trans_distance(model, view, prev, cur, prevprev, is_prev_ne, is_next_ne):
    """DistanceMatcher transition: -(|d_o - d_s|)^2 / beta with d_o the distance between the (interpolated)
    observations and d_s between the (interpolated) states (through the shared node when the edges are connected and
    different), accumulated over a non-emitting run; beta_ne when a non-emitting state is involved; penalties for going
    back on / to an edge and for not connected edges.  Returns (lp, d_o, d_s)."""
    d_z = dist(prev.opi, cur.opi)
    same_edge = (prev.l1 == cur.l1 and prev.l2 == cur.l2) or (prev.l1 == cur.l2 and prev.l2 == cur.l1)
    if same_edge or prev.l2 != cur.l1:
        d_x = dist(prev.pi, cur.pi)
    else:
        d_x = dist(prev.pi, prev.p2) + dist(prev.p2, cur.pi)
    if is_next_ne:
        d_z += prev.d_o
        d_x += prev.d_s
    beta = model.beta_ne if (is_prev_ne or is_next_ne) else model.beta
    lp = -abs(d_z - d_x) ** 2 / beta
    if prev.key == cur.key:
        if model.avoid_goingback and cur.ti < prev.ti:
            lp += model.gobackonedge
    elif (prev.l1, prev.l2) == (cur.l2, cur.l1):
        if model.avoid_goingback:
            lp += model.gobackonedge
    else:
        if prev.l2 != cur.l1:
            lp += model.notconnected
        elif model.avoid_goingback and prevprev is not None and prevprev.key == cur.key:
            lp += model.gobacktoedge
    return lp, d_z, d_x


def project_state(st, obs_pt=None, obs_seg=None):
    """distance / projections of an observation (point) or observation segment on a state. Returns distance."""
    from rtc import geom_oracle as GO
    if obs_pt is not None:
        st.opi = tuple(obs_pt[:2])
        if st.p2 is None:
            st.pi, st.ti = st.p1, 0
            return dist(st.p1, st.opi)
        d, q, t = nearest(st.opi, st.p1, st.p2)
        st.pi, st.ti = q, t
        return d
    o1, o2 = tuple(obs_seg[0][:2]), tuple(obs_seg[1][:2])
    if st.p2 is None:
        d, q, t = nearest(st.p1, o1, o2)
        st.pi, st.ti, st.opi = st.p1, 0, q
        return d
    # segment - segment: true minimum distance and one realising pair (own computation)
    d2 = float(GO.seg_seg_dist2(st.p1, st.p2, o1, o2))
    return math.sqrt(d2)


# ------------------------------------------------------------------------------------------ C01: all-walks brute force
def best_walk(view, trace, model, start_filter=None):
    """Emitting-only, first-order (avoid_goingback False): enumerate ALL admissible walks depth-first.
    Returns (longest explainable prefix length k, best log-probability for that prefix, one best walk).
    start_filter(edge_or_node) can restrict start candidates (used only to classify the known finding F2)."""
    assert not model.avoid_goingback
    T = [tuple(p[:2]) for p in trace]
    if model.only_edges:
        cands = list(view.edges)
    else:
        cands = list(view.nodes.keys())
    best = {'k': 0, 'lp': -math.inf, 'walk': None}

    def mk(key):
        if isinstance(key, tuple):
            return St(key, view.nodes[key[0]], view.nodes[key[1]])
        return St(key, view.nodes[key])

    def succ(st):
        if isinstance(st.key, tuple):
            out = [st.key]
            if model.only_edges:
                out += [e for e in view.succ_edges(st.key) if e != st.key]
            else:
                out.append(st.key[1])
            return out
        out = []
        for c in view.out.get(st.key, []) + [st.key]:
            if c not in out:
                out.append(c)
        res = []
        for c in out:
            res.append(c)
            if c != st.key:
                res.append((st.key, c))
        return res

    def too_close(st):
        return (not model.only_edges) and st.p2 is not None and (abs(st.ti) <= 1e-8 or abs(st.ti - 1.0) <= 1e-8)

    def rec(i, st, lp, walk):
        # st is the admissible state for observation i with prefix score lp
        if i + 1 > best['k'] or (i + 1 == best['k'] and lp > best['lp']):
            best.update(k=i + 1, lp=lp, walk=list(walk))
        if i + 1 == len(T):
            return
        for key in succ(st):
            nx = mk(key)
            d = project_state(nx, obs_pt=T[i + 1])
            if too_close(nx):
                continue
            if model.family == 'simple':
                lt = trans_simple(model, st, nx, None)
            else:
                lt, _, _ = trans_distance(model, view, st, nx, None, False, False)
            nlp = lp + lt + model.lp_obs(d)
            if model.stop(nlp / (i + 2), d):
                continue
            walk.append(key)
            rec(i + 1, nx, nlp, walk)
            walk.pop()
    for key in cands:
        if start_filter and not start_filter(key):
            continue
        st = mk(key)
        d = project_state(st, obs_pt=T[0])
        if not d < model.max_dist_init:
            continue
        lp = model.lp_obs(d)
        if model.stop(lp, d):
            continue
        rec(0, st, lp, [key])
    return best['k'], best['lp'], best['walk']


# ------------------------------------------------------------------------------------------ C02: re-scoring
def rescore(view, trace, model, lattice_best):
    """Recompute (logprob, dist_obs, length) of every prefix of the returned path from the documented model.
    Returns list of dicts aligned with lattice_best, or raises ValueError when the path is not structurally scorable."""
    out = []
    prev = prevprev = None
    lp = lpe = 0.0
    lpne = 0.0
    length = 0
    T = [tuple(p[:2]) for p in trace]
    for k, m in enumerate(lattice_best):
        key = m.shortkey
        if isinstance(key, tuple):
            st = St(key, view.nodes[key[0]], view.nodes[key[1]])
        else:
            st = St(key, view.nodes[key])
        st.obs_ne = m.obs_ne
        is_ne = m.obs_ne != 0
        if is_ne:
            d = project_state(st, obs_seg=(T[m.obs], T[m.obs + 1]))
            # the projections for a segment-segment state are taken from the code's own geometry contract (C13/C14),
            # only their consistency is needed here
            st.pi, st.ti = tuple(m.edge_m.pi), m.edge_m.ti
            st.opi = tuple(m.edge_o.pi)
        else:
            d = project_state(st, obs_pt=T[m.obs])
        if prev is None:
            lo = model.lp_obs(d)
            lp = lpe = lo
            lpne = 0.0
            length = 1
            st.d_o = st.d_s = 0.0
        else:
            is_prev_ne = prev.obs_ne != 0
            if model.family == 'simple':
                lt = trans_simple(model, prev, st, prevprev)
            else:
                lt, st.d_o, st.d_s = trans_distance(model, view, prev, st, prevprev, is_prev_ne, is_ne)
            lo = model.lp_obs(d, is_ne)
            if not is_ne:
                lp = lp + lt + lo
                lpe, lpne = lp, 0.0
                length += 1
            else:
                lpe = lpe + model.ne_factor
                lpne = min(lpne, lt + lo)
                lp = lpe + lpne
        out.append({'logprob': lp, 'dist_obs': d, 'length': length, 'pi': st.pi, 'ti': st.ti})
        prevprev, prev = prev, st
    return out


# ------------------------------------------------------------------------------------------ C09: well-formedness
def well_formed(matcher):
    """Returns list of (clause, description) violations of the C09 statement on matcher.lattice."""
    bad = []
    lat = matcher.lattice
    if lat is None:
        return bad
    now = matcher.expand_now
    filed = {}
    for i, col in lat.items():
        for k, layer in enumerate(col.o):
            for key, e in layer.items():
                filed[id(e)] = (i, k)
    for i, col in lat.items():
        for k, layer in enumerate(col.o):
            for key, e in layer.items():
                where = f"lattice[{i}].o[{k}][{key}]"
                if key != e.key or e.obs != i or e.obs_ne != k:
                    bad.append(('filed-under-claimed-key', f"{where}: entry claims key {e.key} obs {e.obs} obs_ne {e.obs_ne}"))
                if not (e.logprob <= 1e-12):
                    bad.append(('probability-in-[0,1]', f"{where}: logprob {e.logprob} > 0"))
                prevs = list(e.prev)
                if len(prevs) == 0:
                    if not (i == 0 and k == 0):
                        # entries created by continue_with_distance / jumps always have a predecessor as well
                        bad.append(('has-predecessor', f"{where}: no predecessor outside column 0 layer 0"))
                    if e.length != 1:
                        bad.append(('length-counts-emitting', f"{where}: start entry has length {e.length}"))
                    continue
                if len(prevs) != 1:
                    bad.append(('single-best-predecessor', f"{where}: {len(prevs)} best predecessors"))
                p = prevs[0]
                if id(p) not in filed:
                    bad.append(('predecessor-in-lattice', f"{where}: predecessor {p.key} is not filed in the lattice"))
                else:
                    pi, pk = filed[id(p)]
                    ok = (pi == i and pk == k - 1) if k > 0 else (pi == i - 1)
                    if not ok:
                        bad.append(('predecessor-in-directly-preceding-layer', f"{where}: predecessor filed at ({pi},{pk})"))
                if e.logprob > p.logprob + 1e-12:
                    bad.append(('not-more-probable-than-predecessor', f"{where}: {e.logprob} > predecessor {p.logprob}"))
                if e.length != p.length + (1 if k == 0 else 0):
                    bad.append(('length-counts-emitting', f"{where}: length {e.length}, predecessor {p.length}"))
                live = (not e.stop) and e.delayed <= now
                plive = (not p.stop) and p.delayed <= now
                if live and p.stop:
                    # a STOPPED predecessor is never expanded (and nothing un-stops or stops an entry afterwards, other than a merge
                    # that replaces its content): distinct from a predecessor that a later pruning postponed again (findings F11/F11b)
                    bad.append(('live-but-predecessor-stopped', f"{where}: live (delayed {e.delayed}) but predecessor {p.key} is stopped"))
                elif live and not plive:
                    bad.append(('live-only-if-predecessor-live',
                                f"{where}: live (delayed {e.delayed}) but predecessor {p.key} stop={p.stop} delayed={p.delayed} > expand_now={now}"))
    return bad
