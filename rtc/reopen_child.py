"""Child process of the C18 cross-process suite: `build <dir> <base> <n>` writes n maps (SqliteMap with linked parallel roads,
InMemMap pickle) and prints their accessor snapshots; `reopen <dir> <base> <n>` opens the stored files in THIS process (another
interpreter session, another string-hash seed) and prints the snapshots again.  One JSON line on stdout."""
import json
import os
import sys


def cases(base, n):
    from rtc import map_suites as MS
    out = []
    for i in range(n):
        rnd = MS._rnd(base + i, 'C18x')
        g = MS.gen_int_graph(rnd, 'unit')
        # a parallel road next to an existing edge (a quarter unit aside, same direction): connect_parallelroads links them
        E = [(a, b) for a, (p, nb) in g.items() for b in nb if b in g and b != a and g[a][0] != g[b][0]]
        if E:
            a, b = rnd.choice(E)
            (ya, xa), (yb, xb) = g[a][0], g[b][0]
            L = ((yb - ya) ** 2 + (xb - xa) ** 2) ** 0.5
            ny, nx = -(xb - xa) / L * 0.25, (yb - ya) / L * 0.25
            c, d = max(g) + 1, max(g) + 2
            g[c] = ((ya + ny, xa + nx), [d])
            g[d] = ((yb + ny, xb + nx), [c] if rnd.random() < 0.5 else [])
        ys = [v[0][0] for v in g.values()]
        xs = [v[0][1] for v in g.values()]
        boxes = [(min(ys), min(xs), sorted(ys)[len(ys) // 2], sorted(xs)[len(xs) // 2])]
        p0 = rnd.choice(list(g.values()))[0]
        out.append((g, boxes, [((p0[0], p0[1]), 1.5)]))
    return out


def canon(snap):
    return {k: json.dumps(MSj(v), sort_keys=True) for k, v in snap.items()}


def MSj(v):
    if isinstance(v, dict):
        return {str(k): MSj(x) for k, x in v.items()}
    if isinstance(v, (list, tuple)):
        return [MSj(x) for x in v]
    return v


def main():
    mode, d, base, n = sys.argv[1], sys.argv[2], int(sys.argv[3]), int(sys.argv[4])
    from rtc import map_suites as MS, universe as U
    from leuvenmapmatching.map.sqlite import SqliteMap
    from leuvenmapmatching.map.inmem import InMemMap
    import copy, io, contextlib
    U.quiet()
    res = []
    for i, (g, boxes, locs) in enumerate(cases(base, n)):
        with contextlib.redirect_stderr(io.StringIO()):
            if mode == 'build':
                sm, _ = MS.build_sqlite(g, d, name=f"m{i}", use_latlon=False, how='single')
                sm.connect_parallelroads(dist=0.5)
                im = InMemMap(f"p{i}", use_latlon=False, use_rtree=False, graph=copy.deepcopy(g), dir=d)
                im.dump()
            else:
                sm = SqliteMap.from_file(os.path.join(d, f"m{i}.sqlite"))
                im = InMemMap.from_pickle(os.path.join(d, f"p{i}.pkl"))
            s1 = canon(MS.accessor_snapshot(sm, g, boxes, locs))
            s1['linked-rows'] = sm.db.execute('SELECT count(*) FROM close_edges').fetchone()[0]
            s2 = canon(MS.accessor_snapshot(im, g, boxes, locs))
            sm.db.close()
        res.append({'sqlite': s1, 'pickle': s2, 'graph': MSj({k: [list(v[0]), v[1]] for k, v in g.items()})})
    print(json.dumps(res))


if __name__ == '__main__':
    main()
