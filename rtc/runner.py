"""Process-pool driver for bounded suites."""
import multiprocessing as mp
import os
import traceback


def _wrap(args):
    fn, seed, kw = args
    try:
        r = fn(seed, **kw)
        for v in r.get('violations', []):
            v[2]['seed_case'] = seed
        return r
    except Exception as e:
        return {'error': f"{type(e).__name__}: {e}", 'traceback': traceback.format_exc()[-1200:], 'seed': seed}


def run_cases(fn, seeds, procs=None, **kw):
    """fn(seed, **kw) -> dict(nontrivial=bool, violations=[(key, text, replay)], sample=..., [error])"""
    procs = procs or min(16, os.cpu_count() or 4)
    jobs = [(fn, s, kw) for s in seeds]
    if procs == 1 or len(jobs) < 4:
        return [_wrap(j) for j in jobs]
    ctx = mp.get_context('fork')
    with ctx.Pool(procs) as pool:
        return pool.map(_wrap, jobs, chunksize=max(1, len(jobs) // (procs * 8)))


def book(chk, suite, results, rule, bounds=''):
    """Book bounded results into a Check."""
    nontriv, errors, samples = 0, [], []
    for r in results:
        if r.get('error'):
            errors.append(r)
            continue
        nontriv += 1 if r.get('nontrivial') else 0
        if r.get('sample') is not None and len(samples) < 3:
            samples.append(r['sample'])
        for key, text, replay in r.get('violations', []):
            chk.violation(key=key, text=text, replay=dict(replay, kind='bounded', suite=suite))
    if errors:
        chk.undecided.append(f"{suite}: {len(errors)} harness error(s), first: {errors[0]['error']} {errors[0].get('traceback','')[-300:]}")
    chk.bounded_suite(suite, len(results) - len(errors), nontriv, samples, rule, bounds)
    return nontriv
