"""Child process of the C10 hash-seed suite: runs the given universe cases and prints their canonical results as JSON."""
import json
import sys

sys.path.insert(0, __import__('os').path.dirname(__import__('os').path.dirname(__import__('os').path.abspath(__file__))))
from rtc import suites as S, universe as U


def main():
    lo, hi = int(sys.argv[1]), int(sys.argv[2])
    U.quiet()
    out = []
    for seed in range(lo, hi):
        rnd = S._rnd(seed, 'C10h')
        case = U.gen_case(rnd, label_kind='str')      # string labels: their hashes are what PYTHONHASHSEED randomises
        try:
            mp, mt, res = S.run_match(case)
            c = U.canon(mt, res)
            out.append([seed, c['idx'], [str(s) for s in (c['states'] or [])], [repr(x) for x in c['lp']], [str(k) for k in c['keys']]])
        except Exception as e:
            out.append([seed, 'raised', repr(e)])
    print(json.dumps(out))


if __name__ == '__main__':
    main()
