"""Bounded suites for the map properties C11, C12, C18 (both backends, both metrics).  Scratch files live in a
fresh directory under the system temp dir (outside /repo and /verif) and are removed afterwards."""
import math
import os
import random
import shutil
import tempfile

from rtc import universe as U


def _rnd(seed, salt):
    return random.Random(f"{salt}:{seed}")


def gen_int_graph(rnd, scale='unit', n=None):
    """integer-labelled graph; coordinates at unit scale, ~1e7 ('projected metres') or in degrees (lat-lon)."""
    g = U.gen_graph(rnd, n=n or rnd.choice([3, 4, 5, 6]), label_kind='int', family=rnd.choice(['random', 'grid', 'chain', 'cycle', 'star']))
    if rnd.random() < 0.3:
        # a long edge whose end points are far from everything
        ks = list(g)
        a, b = ks[0], ks[-1]
        g[a] = ((g[a][0][0], -10.0), g[a][1])
        g[b] = ((g[b][0][0], 10.0), g[b][1])
        if b not in g[a][1]:
            g[a][1].append(b)
    if scale == '1e7':
        g = {k: ((1e7 + p[0] * 3.1 + 0.37, 2e6 + p[1] * 2.7 + 0.41), nb) for k, (p, nb) in g.items()}
        import zlib
        r2 = random.Random(zlib.crc32(repr(sorted(g.items())).encode()))
        if r2.random() < 0.4:
            # a millimetre edge at projected-metre magnitude (two surveyed points of one junction): far above the absolute 1e-8
            # tolerance of the planar geometry, but only 1e-10 .. 1e-9 of the coordinates themselves
            k = r2.choice(sorted(g))
            k2 = max(g) + 1
            (y_, x_), nb_ = g[k]
            g[k2] = ((y_ + r2.choice([0.004, 0.0, -0.008]), x_ + r2.choice([0.003, 0.006, -0.002])), [k])
            nb_.append(k2)
    elif scale == 'deg':
        lat0, lon0 = rnd.choice([(50.0, 4.0), (-35.0, 120.0), (0.0, 0.0), (59.0, -75.0), (-23.5, -46.6), (-16.85, 179.997), (0.0, 179.999)])
        # (the last two straddle the antimeridian; longitudes are given in (-180, 180])
        wrap = lambda lo: lo - 360.0 if lo > 180.0 else lo
        g = {k: ((lat0 + p[0] * 2e-3, wrap(lon0 + p[1] * 2e-3)), nb) for k, (p, nb) in g.items()}
    return g


def gen_rim_graph(rnd):
    """lat-lon map for one large-radius query at mid/high latitude: nodes 10 cm inside the disc at its most easterly and most
    westerly points (where a meridian is tangent to the disc; poleward of the centre's parallel), at the four cardinal points,
    and rings at 0.9 r and 1.1 r; every node is joined to a partner outside the disc (both directions)."""
    import math
    from rtc import geo_ref as G
    c = rnd.choice([(50.0, 4.0), (-35.0, 120.0), (59.0, -75.0), (69.65, 18.95), (-54.8, -68.3), (60.0, 10.0), (0.0, 0.0)])
    r = rnd.choice([2000.0, 25000.0, 50000.0, 100000.0])
    d = r / G.R
    late = math.degrees(math.asin(math.sin(math.radians(c[0])) / math.cos(d)))
    dlon = math.degrees(math.asin(math.sin(d) / math.cos(math.radians(c[0]))))
    inner = []
    for sgn in (1.0, -1.0):
        e = (late, c[1] + sgn * dlon)
        f = 1 - 0.1 / r
        inner.append((c[0] + (e[0] - c[0]) * f, c[1] + (e[1] - c[1]) * f))
    for b in (0.0, 90.0, 180.0, 270.0):
        inner.append(G.destination(c, b, r - 0.1))
    for k in range(rnd.choice([2, 4])):
        inner.append(G.destination(c, rnd.uniform(0, 360), 0.9 * r))
    g, nid = {}, 1
    # long edges whose end points are BOTH outside the radius and whose interior passes through the disc (chords between points at
    # 1.1 r, 60 to 120 degrees apart): the nearest point is an interior foot, far from either end
    for _ in range(rnd.choice([1, 2])):
        th = rnd.uniform(0, 360)
        a_, b_ = G.destination(c, th, 1.1 * r), G.destination(c, th + rnd.choice([60.0, 90.0, 120.0]), 1.1 * r)
        g[nid] = (a_, [nid + 1])
        g[nid + 1] = (b_, [nid])
        nid += 2
    for p in inner:
        b = G.bearing(c, p) if hasattr(G, 'bearing') else 0.0
        out = (p[0] + (p[0] - c[0]) * 0.2, p[1] + (p[1] - c[1]) * 0.2)
        g[nid] = (p, [nid + 1])
        g[nid + 1] = (out, [nid])
        nid += 2
    return g, (c, r)


def build_sqlite(g, d, name='m', use_latlon=False, how='bulk', **kw):
    from leuvenmapmatching.map.sqlite import SqliteMap
    m = SqliteMap(name, use_latlon=use_latlon, dir=d, **kw)
    nodes = [(k, v[0]) for k, v in g.items()]
    edges = [(a, b) for a, (p, nb) in g.items() for b in nb if b in g]
    # duplicates in neighbour lists would violate the edge id primary key in bulk mode
    seen, e2 = set(), []
    for e in edges:
        if e not in seen:
            seen.add(e)
            e2.append(e)
    edges = e2
    if how == 'bulk':
        m.add_nodes(nodes)
        m.add_edges(edges)
    elif how == 'single':
        for k, p in nodes:
            m.add_node(k, p)
        for a, b in edges:
            m.add_edge(a, b)
    elif how == 'deferred':
        for k, p in nodes:
            m.add_node(k, p, no_index=True, no_commit=True)
        m.db.commit()
        m.reindex_nodes()
        for a, b in edges:
            m.add_edge(a, b, no_index=True, no_commit=True)
        m.db.commit()
        m.reindex_edges()
    elif how == 'import':
        # the way a large import is done: everything without index and commit, both indexes rebuilt at the very end
        for k, p in nodes:
            m.add_node(k, p, no_index=True, no_commit=True)
        for a, b in edges:
            m.add_edge(a, b, no_index=True, no_commit=True)
        m.db.commit()
        m.reindex_nodes()
        m.reindex_edges()
    elif how == 'bulk2':
        # two bulk loads into the same map (e.g. a second district added later)
        m.add_nodes(nodes)
        h2 = max(1, len(edges) // 2)
        m.add_edges(edges[:h2])
        if edges[h2:]:
            m.add_edges(edges[h2:])
    elif how == 'nocommit-then-duplicate':
        # everything with a deferred commit; the call that finally commits is a single add_edge of an edge that is already there
        for k, p in nodes:
            m.add_node(k, p, no_commit=True)
        for a, b in edges:
            m.add_edge(a, b, no_commit=True)
        if edges:
            m.add_edge(*edges[-1])
        else:
            m.db.commit()
    elif how == 'bulk-noindex-last':
        # the last writing operation is a bulk insert without indexing (neighbour queries see the edges, box queries do not)
        m.add_nodes(nodes)
        m.add_edges(edges, no_index=True)
    elif how == 'readd-doubles':
        # an import that meets every node a second time (ways share nodes) with ignore_doubles=True - the second sighting carries
        # the coordinates of ANOTHER node: a double is ignored, the map is the one of the first sightings
        for k, p in nodes:
            m.add_node(k, p)
        for i, (k, p) in enumerate(nodes):
            m.add_node(k, nodes[(i + 1) % len(nodes)][1], ignore_doubles=True)
        for a, b in edges:
            m.add_edge(a, b)
    elif how == 'mixed':
        half = len(nodes) // 2
        m.add_nodes(nodes[:half])
        for k, p in nodes[half:]:
            m.add_node(k, p, no_commit=True)
        m.db.commit()
        m.add_edges(edges[:len(edges) // 2], no_index=True)
        for a, b in edges[len(edges) // 2:]:
            m.add_edge(a, b, no_index=True)
        m.reindex_edges()
    return m, edges


def metric(use_latlon):
    if use_latlon:
        from leuvenmapmatching.util import dist_latlon as dl
        return dl
    from leuvenmapmatching.util import dist_euclidean as de
    return de


def planar_point_to_segment(p, a, b):
    """nearest point of the segment a-b to p in the plane: (distance, point, relative position); a segment is a point only
    when its end points are EQUAL (written from the geometry; same order of operations as the textbook formula)"""
    dx, dy = b[0] - a[0], b[1] - a[1]
    l2 = dx ** 2 + dy ** 2
    if l2 == 0:
        return math.hypot(p[0] - a[0], p[1] - a[1]), (a[0], a[1]), 0.0
    t = max(0.0, min(1.0, ((p[0] - a[0]) * dx + (p[1] - a[1]) * dy) / l2))
    q = (a[0] + t * dx, a[1] + t * dy)
    return math.sqrt((p[0] - q[0]) ** 2 + (p[1] - q[1]) ** 2), q, t


def same_ranked(got, exp_full, key_of, max_elmt=None, tol=1e-9):
    """got must be: sorted by distance; a subset of the full expectation with the right distances; of length
    min(max_elmt, len(full)); and contain every expected element strictly closer than its last element
    (which element of a distance tie survives the truncation is unspecified)."""
    n = len(exp_full) if max_elmt is None else min(max_elmt, len(exp_full))
    if len(got) != n:
        return False
    if any(got[i][0] > got[i + 1][0] + tol * (1 + abs(got[i][0])) for i in range(len(got) - 1)):
        return False
    exp_by_key = {}
    for t in exp_full:
        exp_by_key.setdefault(repr(key_of(t)), []).append(t[0])
    seen = set()
    for t in got:
        k = repr(key_of(t))
        if k not in exp_by_key or k in seen and len(exp_by_key[k]) < 2:
            return False
        if not any(abs(t[0] - d) <= tol * (1 + abs(d)) for d in exp_by_key[k]):
            return False
        seen.add(k)
    if got:
        last = got[-1][0]
        for t in exp_full:
            if t[0] < last - tol * (1 + abs(last)) and repr(key_of(t)) not in seen:
                return False
    return True


# ================================================================================================== C11
def case_C11(seed):
    rnd = _rnd(seed, 'C11')
    scale = rnd.choice(['unit', 'unit', '1e7', 'deg', 'deg-rim'])
    use_latlon = scale in ('deg', 'deg-rim')
    rim = None
    if scale == 'deg-rim':
        g, rim = gen_rim_graph(rnd)
    else:
        g = gen_int_graph(rnd, scale)
    lib = metric(use_latlon)
    d = tempfile.mkdtemp(prefix='verif_c11_')
    viol = []
    nontriv = False
    try:
        from leuvenmapmatching.map.inmem import InMemMap
        import copy
        U.quiet()
        import io, contextlib
        how11 = rnd.choice(['bulk', 'single']) if seed % 4 else ['deferred', 'import', 'bulk2', 'readd-doubles'][(seed // 4) % 4]
        pts = [v[0] for v in g.values()]
        unit = {'unit': 1.0, '1e7': 3.0, 'deg': 200.0, 'deg-rim': 200.0}[scale]      # typical length in the metric's unit
        grown = seed % 3 == 1 and rim is None and len(g) >= 3
        pre_queries = []
        if grown:
            # the map is queried, extended through add_node / add_edge, and queried again with the SAME arguments
            keys = list(g)
            # (half of these cases add only edges afterwards, the other half a node and edges)
            k1 = set(keys) if seed % 2 == 0 else set(keys[:max(2, len(keys) - 1)])
            sub = {k: (g[k][0], [b for b in g[k][1] if b in k1][:1]) for k in keys if k in k1}
            im = InMemMap('im', use_latlon=use_latlon, use_rtree=False, graph=copy.deepcopy(sub))
            sm, edges1 = build_sqlite(sub, d, use_latlon=use_latlon, how=how11)
            r2 = random.Random(seed)
            for _ in range(2):
                b_ = r2.choice(pts)
                pre_queries.append(((b_[0], b_[1]), r2.choice([1.0, 2.5, 50.0]) * unit, r2.choice([None, 1, 3])))
            for loc_, r_, me_ in pre_queries:
                for mp_ in (im, sm):
                    with contextlib.redirect_stdout(io.StringIO()):
                        list(mp_.nodes_closeto(loc_, max_dist=r_, max_elmt=me_))
                        list(mp_.edges_closeto(loc_, max_dist=r_, max_elmt=me_))
            for k in keys:
                if k not in k1:
                    im.add_node(k, g[k][0])
                    sm.add_node(k, g[k][0])
            seen_e = set(edges1)
            edges = list(edges1)
            for a in keys:
                for b in g[a][1]:
                    if b in g and (a, b) not in seen_e:
                        seen_e.add((a, b))
                        edges.append((a, b))
                        im.add_edge(a, b)
                        sm.add_edge(a, b)
            # the in-memory map now lists the neighbours in insertion order: the expectation is taken from the full graph
        else:
            im = InMemMap('im', use_latlon=use_latlon, use_rtree=False, graph=copy.deepcopy(g))
            sm, edges = build_sqlite(g, d, use_latlon=use_latlon, how=how11)
        for q in range(3 if rim is None else 1):
            base = rnd.choice(pts)
            if rim is not None:
                loc = rim[0]
            elif use_latlon:
                loc = (base[0] + rnd.uniform(-2e-3, 2e-3), base[1] + rnd.uniform(-2e-3, 2e-3))
                loc = (loc[0], loc[1] - 360.0 if loc[1] > 180.0 else (loc[1] + 360.0 if loc[1] <= -180.0 else loc[1]))
            else:
                loc = (base[0] + rnd.uniform(-1, 1) * unit, base[1] + rnd.uniform(-1, 1) * unit)
            if rnd.random() < 0.3:
                loc = loc + (12.5,)
            r = rnd.choice([0.0, 0.3, 1.0, 2.5, 50.0]) * unit
            max_elmt = rnd.choice([None, None, 1, 3])
            if rim is not None:
                loc, r, max_elmt = rim[0], rim[1], None
            if q < len(pre_queries):
                loc, r, max_elmt = pre_queries[q]
            exp_n = sorted(((lib.distance(loc, p), k, p) for k, (p, nb) in g.items()), key=lambda t: t[0])
            exp_n = [t for t in exp_n if t[0] < r]
            exp_e = []
            for a, b in edges:
                if a == b:
                    continue
                if use_latlon:
                    dd, pi, ti = lib.distance_point_to_segment(loc, g[a][0], g[b][0])     # (checked against the 3-D reference below)
                else:
                    dd, pi, ti = planar_point_to_segment(loc, g[a][0], g[b][0])          # the suite's own planar geometry
                if dd < r:
                    exp_e.append((dd, a, g[a][0], b, g[b][0], pi, ti))
            exp_e.sort(key=lambda t: t[0])
            if exp_n or exp_e:
                nontriv = True
            for nm, mp in (('InMemMap', im), ('SqliteMap', sm)):
                with contextlib.redirect_stdout(io.StringIO()):
                    got_n = list(mp.nodes_closeto(loc, max_dist=r, max_elmt=max_elmt))
                    got_e = list(mp.edges_closeto(loc, max_dist=r, max_elmt=max_elmt))
                en = exp_n[:max_elmt] if max_elmt is not None else exp_n
                ee = exp_e[:max_elmt] if max_elmt is not None else exp_e
                if not same_ranked([(t[0], t[1], tuple(t[2])) for t in got_n], [(t[0], t[1], tuple(t[2])) for t in exp_n], lambda t: t[1], max_elmt) or \
                        any(tuple(map(float, t[2])) != tuple(map(float, g[t[1]][0])) for t in got_n):
                    viol.append((f'C11:{nm}.nodes_closeto-differs-from-exhaustive-scan',
                                 f"{nm}.nodes_closeto({loc}, {r}, {max_elmt}) = {[(round(t[0], 6), t[1]) for t in got_n]}, expected {[(round(t[0], 6), t[1]) for t in en]}",
                                 {'graph': {str(k): [list(v[0]), v[1]] for k, v in g.items()}, 'scale': scale, 'loc': list(loc), 'radius': r, 'max_elmt': max_elmt}))
                # self-loop edges (a node listed as its own neighbour) are left unspecified: the in-memory map skips them,
                # the SQLite map lists them; they are ignored on both sides
                ge = [(t[0], t[1], t[3], tuple(t[5][:2]), t[6]) for t in got_e if t[1] != t[3]]
                if max_elmt is not None and len(ge) < len(got_e):
                    continue
                xe_full = [(t[0], t[1], t[3], tuple(t[5][:2]), t[6]) for t in exp_e]
                xe = xe_full[:max_elmt] if max_elmt is not None else xe_full
                if not same_ranked(ge, xe_full, lambda t: (t[1], t[2]), max_elmt):
                    key = f'C11:{nm}.edges_closeto-differs-from-exhaustive-scan'
                    if nm == 'InMemMap':
                        # known finding F2: only edges whose START NODE lies in the box are considered
                        box = lib.box_around_point(tuple(loc[:2]), r)
                        f2 = [t for t in xe_full if box[0] <= g[t[1]][0][0] <= box[2] and box[1] <= g[t[1]][0][1] <= box[3]]
                        if len(f2) < len(xe_full) and same_ranked(ge, f2, lambda t: (t[1], t[2]), max_elmt):
                            key = 'C11:inmem-edges-closeto-missing-long-edge'
                    if nm == 'SqliteMap' and use_latlon:
                        # known finding F22: an edge that CROSSES the antimeridian is indexed with the long-way-round longitude
                        # interval (min/max of its end points), so a query box near the date line does not meet it
                        crossing = lambda t: abs(g[t[1]][0][1] - g[t[2]][0][1]) > 180.0
                        found22 = set((t[1], t[2]) for t in ge)
                        f22 = [t for t in xe_full if not crossing(t) or (t[1], t[2]) in found22]
                        if len(f22) < len(xe_full) and same_ranked(ge, f22, lambda t: (t[1], t[2]), max_elmt):
                            key = 'C11:sqlite-edge-index-misses-edges-crossing-the-antimeridian'
                    viol.append((key, f"{nm}.edges_closeto({loc}, {r}, {max_elmt}) = {[(round(t[0], 6), t[1], t[2]) for t in ge]}, expected {[(round(t[0], 6), t[1], t[2]) for t in xe]}",
                                 {'graph': {str(k): [list(v[0]), v[1]] for k, v in g.items()}, 'scale': scale, 'loc': list(loc), 'radius': r, 'max_elmt': max_elmt}))
                else:
                    if use_latlon and not any('wrong-distance' in v_[0] for v_ in viol):
                        # the distances / projections the query reports, against the independent 3-D reference (not the library's
                        # own metric): 12 cm + 2e-6 relative, as in C14 - also for edges of tens of kilometres
                        from rtc import geo_ref as G_
                        for a_ in ge:
                            rd_, rpi_, rti_ = G_.nearest_on_arc(tuple(loc[:2]), g[a_[1]][0], g[a_[2]][0])
                            if abs(a_[0] - rd_) > 0.12 + 2e-6 * rd_ or G_.gc_distance(a_[3], rpi_) > 0.12 + 2e-6 * (rd_ + G_.gc_distance(g[a_[1]][0], g[a_[2]][0])):
                                viol.append((f'C11:{nm}.edges_closeto-reports-a-wrong-distance-or-projection',
                                             f"edge {a_[1], a_[2]}: reported distance {a_[0]} / projection {a_[3]}, spherical reference {rd_} / {rpi_}",
                                             {'scale': scale, 'loc': list(loc), 'radius': r, 'edge': [list(g[a_[1]][0]), list(g[a_[2]][0])]}))
                                break
                    xk = {(t[1], t[2]): t for t in xe_full}
                    for a_ in ge:
                        b_ = xk[(a_[1], a_[2])]
                        if abs(a_[4] - b_[4]) > 1e-9 or math.hypot(a_[3][0] - b_[3][0], a_[3][1] - b_[3][1]) > 1e-9 * (1 + abs(b_[3][0])):
                            viol.append((f'C11:{nm}.edges_closeto-wrong-projection', f"edge {a_[1], a_[2]}: got pi/ti {a_[3]}/{a_[4]}, expected {b_[3]}/{b_[4]}",
                                         {'scale': scale, 'loc': list(loc), 'radius': r}))
                            break
            if viol:
                break
        sm.db.close()
    finally:
        shutil.rmtree(d, ignore_errors=True)
    return {'nontrivial': nontriv, 'violations': viol[:3], 'sample': {'scale': scale, 'graph': {str(k): [list(v[0]), v[1]] for k, v in g.items()}}}


# ================================================================================================== abstract view
def view_inmem(m):
    nodes = {k: tuple(v[0]) for k, v in m.graph.items()}
    edges = set((a, b) for a, (p, nb) in m.graph.items() for b in nb if b in m.graph)
    return nodes, edges


def view_sqlite_raw(m):
    c = m.db.cursor()
    nodes = {r[0]: (r[2], r[1]) for r in c.execute('SELECT id, x, y FROM nodes')}
    edges = set((r[0], r[1]) for r in c.execute('SELECT id1, id2 FROM edges'))
    return nodes, edges


def accessor_snapshot(m, g, boxes, locs, quiet=True):
    """every public read accessor of a map, in a canonical (order-free) form; an accessor that raises is part of the
    snapshot (a map that cannot answer differs from one that can)"""
    try:
        return _accessor_snapshot(m, g, boxes, locs)
    except Exception as e:
        return {'raised': f"{type(e).__name__}: {e}"[:200]}


def _accessor_snapshot(m, g, boxes, locs):
    import io, contextlib
    out = {}
    with contextlib.redirect_stdout(io.StringIO()):
        out['use_latlon'] = bool(m.use_latlon)
        out['crs'] = (m.crs_lonlat, m.crs_xy)
        out['metric'] = m.distance.__module__
        out['size'] = m.size()
        out['labels'] = sorted(m.labels())
        out['coords'] = {k: tuple(m.node_coordinates(k)) for k in g}
        out['nodes_nbrto'] = {k: sorted((l, tuple(p)) for l, p in m.nodes_nbrto(k) if l != k) for k in g}
        out['edges_nbrto'] = {}
        for a, (p, nb) in g.items():
            for b in nb:
                if b in g:
                    out['edges_nbrto'][(a, b)] = sorted((l1, tuple(p1), l2, tuple(p2)) for l1, p1, l2, p2 in m.edges_nbrto((a, b)) if l1 != l2)
        out['all_edges'] = sorted((a, tuple(pa), b, tuple(pb)) for a, pa, b, pb in m.all_edges())
        out['all_nodes'] = sorted((k, tuple(p)) for k, p in m.all_nodes())
        # the listings consumed lazily, with other queries on the same map in between (what a caller does who walks over the
        # edges and looks at the neighbours of each): the listing must not be cut short by the queries inside the loop
        out['all_edges_with_queries_in_the_loop'] = sorted((a, b, len([x for x in m.nodes_nbrto(b) if x[0] != b])) for a, pa, b, pb in m.all_edges())
        out['all_nodes_with_queries_in_the_loop'] = sorted((k, tuple(m.node_coordinates(k)), m.size()) for k, p in m.all_nodes())
        out['bb'] = tuple(m.bb())
        out['all_nodes_bb'] = [sorted((k, tuple(p)) for k, p in m.all_nodes(bb=bx)) for bx in boxes]
        out['nodes_closeto'] = [sorted((round(d, 9), k) for d, k, p in m.nodes_closeto(loc, max_dist=r)) for loc, r in locs]
        out['edges_closeto'] = [sorted((round(t[0], 9), t[1], t[3]) for t in m.edges_closeto(loc, max_dist=r)) for loc, r in locs]
    return out


def diff_snap(a, b, skip=()):
    if 'raised' in a or 'raised' in b:
        return ['raised'] if a.get('raised') != b.get('raised') else []
    return [k for k in a if k not in skip and a[k] != b[k]]


# ================================================================================================== C12
def case_C12(seed):
    rnd = _rnd(seed, 'C12')
    use_latlon = rnd.random() < 0.25
    g = gen_int_graph(rnd, 'deg' if use_latlon else 'unit')
    d = tempfile.mkdtemp(prefix='verif_c12_')
    viol = []
    try:
        from leuvenmapmatching.map.inmem import InMemMap
        import copy, io, contextlib
        U.quiet()
        how = rnd.choice(['bulk', 'single', 'deferred']) if seed % 4 else ['import', 'bulk2', 'deferred', 'readd-doubles'][(seed // 4) % 4]
        grown = seed % 3 == 0 and len(g) >= 3
        ys = [v[0][0] for v in g.values()]
        xs = [v[0][1] for v in g.values()]
        if grown:
            # the map is queried, then extended through the single-insert interface, then queried again (both backends)
            keys = list(g)
            k1 = set(keys) if seed % 2 == 0 else set(keys[:max(2, len(keys) // 2)])
            sub = {k: (g[k][0], [b for b in g[k][1] if b in k1][:(1 if seed % 2 == 0 else 99)]) for k in keys if k in k1}
            im = InMemMap('im', use_latlon=use_latlon, use_rtree=False, graph=copy.deepcopy(sub))
            sm, edges1 = build_sqlite(sub, d, name=('m.v1' if seed % 4 == 2 else 'm'), use_latlon=use_latlon, how=how)
            b0 = [(min(ys), min(xs), max(ys), max(xs))]
            for mp_ in (im, sm):
                with contextlib.redirect_stdout(io.StringIO()):
                    accessor_snapshot(mp_, sub, b0, [((ys[0], xs[0]), 250.0 if use_latlon else 1.5)])
            for k in keys:
                if k not in k1:
                    im.add_node(k, g[k][0])
                    sm.add_node(k, g[k][0])
            seen_e = set(edges1)
            edges = list(edges1)
            for a in keys:
                for b in g[a][1]:
                    if b in g and (a, b) not in seen_e:
                        seen_e.add((a, b))
                        edges.append((a, b))
                        im.add_edge(a, b)
                        sm.add_edge(a, b)
        else:
            im = InMemMap('im', use_latlon=use_latlon, use_rtree=False, graph=copy.deepcopy(g))
            sm, edges = build_sqlite(g, d, name=('m.v1' if seed % 4 == 2 else 'm'), use_latlon=use_latlon, how=how)
        boxes = []
        for _ in range(2):
            y0, y1 = sorted([rnd.choice(ys), rnd.choice(ys) + rnd.choice([0, 1e-3 if use_latlon else 0.75])])
            x0, x1 = sorted([rnd.choice(xs), rnd.choice(xs) + rnd.choice([0, 1e-3 if use_latlon else 0.75])])
            boxes.append((y0, x0, y1, x1))
        if seed % 4 == 2:
            # another map with a sibling name is created in the same directory while this one is in use
            from leuvenmapmatching.map.sqlite import SqliteMap
            other = SqliteMap('m.v2', use_latlon=use_latlon, dir=d)
            other.add_node(987654, (ys[0] + 7, xs[0] + 7))
            other.add_node(987655, (ys[0] + 8, xs[0] + 7))
            other.add_edge(987654, 987655)
        sa = accessor_snapshot(im, g, boxes, [])
        sb = accessor_snapshot(sm, g, boxes, [])
        # in-memory neighbour listing keeps duplicates of the neighbour list; compare as sets of moves
        for s in (sa, sb):
            if 'raised' in s:
                continue
            s['nodes_nbrto'] = {k: sorted(set(v)) for k, v in s['nodes_nbrto'].items()}
            s['edges_nbrto'] = {k: sorted(set(v)) for k, v in s['edges_nbrto'].items()}
            s['all_edges'] = sorted(set(s['all_edges']))
        bad = diff_snap(sa, sb, skip=('crs', 'nodes_closeto', 'edges_closeto'))
        if bad:
            k = bad[0]
            viol.append((f'C12:backends-differ:{k}', f"{k}{' (map queried, extended by add_node/add_edge, queried again)' if grown else ''}: in-memory {str(sa.get(k))[:300]} vs sqlite {str(sb.get(k))[:300]}",
                         {'graph': {str(kk): [list(v[0]), v[1]] for kk, v in g.items()}, 'use_latlon': use_latlon, 'boxes': boxes, 'differs': bad,
                          'grown_after_first_queries': grown}))
        else:
            # same edge-based matcher, unbounded initial radius
            tr = U.gen_trace(rnd, {k: ((v[0][0], v[0][1]), v[1]) for k, v in g.items()}, n=rnd.choice([2, 3, 4]), noise=0.0, kind='onroad') if not use_latlon else None
            if tr:
                cfg = U.gen_cfg(rnd, only_edges=True, cutoffs=False)
                cfg['max_dist'] = rnd.choice([None, 2.0])
                cfg['max_dist_init'] = 1e9 if cfg['max_dist'] else None      # unbounded initial radius (C12 statement)
                res = []
                for mp in (im, sm):
                    with contextlib.redirect_stdout(io.StringIO()):
                        mt = U.make_matcher(mp, cfg)
                        r = mt.match(tr)
                        res.append(U.canon(mt, r))
                if res[0]['idx'] != res[1]['idx'] or (res[0]['best'] is not None and abs(res[0]['best'] - res[1]['best']) > 1e-9 * (1 + abs(res[0]['best']))):
                    viol.append(('C12:backends-differ:match', f"in-memory idx/best {res[0]['idx']}/{res[0]['best']} vs sqlite {res[1]['idx']}/{res[1]['best']}",
                                 {'graph': {str(kk): [list(v[0]), v[1]] for kk, v in g.items()}, 'trace': tr, 'cfg': cfg}))
        sm.db.close()
    finally:
        shutil.rmtree(d, ignore_errors=True)
    return {'nontrivial': len(g) >= 3 and len(set(v[0] for v in g.values())) >= 3, 'violations': viol,
            'sample': {'graph': {str(k): [list(v[0]), v[1]] for k, v in g.items()}, 'use_latlon': use_latlon}}


# ================================================================================================== C18
def case_C18(seed):
    rnd = _rnd(seed, 'C18')
    use_latlon = rnd.random() < 0.5
    g = gen_int_graph(rnd, 'deg' if use_latlon else rnd.choice(['unit', '1e7']))
    d = tempfile.mkdtemp(prefix='verif_c18_')
    viol = []
    how = rnd.choice(['bulk', 'single', 'deferred', 'mixed', 'bulk-noindex-last'])
    if seed % 5 == 3:
        how = ['import', 'bulk2', 'nocommit-then-duplicate', 'readd-doubles'][(seed // 5) % 4]
    crs = rnd.choice([{}, {}, {'crs_lonlat': 'EPSG:4258', 'crs_xy': 'EPSG:31370'}])
    cycles = rnd.choice([1, 2, 3])
    try:
        from leuvenmapmatching.map.sqlite import SqliteMap
        from leuvenmapmatching.map.inmem import InMemMap
        import copy
        U.quiet()
        ys = [v[0][0] for v in g.values()]
        xs = [v[0][1] for v in g.values()]
        boxes = [(min(ys), min(xs), sorted(ys)[len(ys) // 2], sorted(xs)[len(xs) // 2])]
        p0 = rnd.choice(list(g.values()))[0]
        r = 250.0 if use_latlon else (4.0 if abs(p0[0]) > 1e5 else 1.5)
        locs = [((p0[0], p0[1]), r)]
        sm, edges = build_sqlite(g, d, name='stored', use_latlon=use_latlon, how=how, **crs)
        updated = [None, None, 'crs', 'metric', 'both', None, 'there-and-back', 'both'][seed % 8]
        if updated == 'there-and-back':
            # a setting changed, saved, changed BACK and saved again: the reopened map must show the last saved values
            old_crs = (sm.crs_lonlat, sm.crs_xy)
            sm.crs_lonlat, sm.crs_xy = 'EPSG:4269', 'EPSG:28992'
            sm.use_latlon = not use_latlon
            sm.save_properties()
            sm.crs_lonlat, sm.crs_xy = old_crs
            sm.use_latlon = use_latlon
            sm.save_properties()
        elif updated:
            # settings changed after creation and saved again (the properties table then holds an older and a newer row per key)
            if updated in ('crs', 'both'):
                sm.crs_lonlat, sm.crs_xy = 'EPSG:4269', 'EPSG:28992'
            if updated in ('metric', 'both'):
                sm.use_latlon = not use_latlon
            sm.save_properties()
        orig = accessor_snapshot(sm, g, boxes, locs)
        vraw = view_sqlite_raw(sm)
        sm.db.close()
        for c in range(cycles):
            m2 = SqliteMap.from_file(os.path.join(d, 'stored.sqlite'))
            snap = accessor_snapshot(m2, g, boxes, locs)
            v2 = view_sqlite_raw(m2)
            m2.db.close()
            bad = diff_snap(orig, snap)
            if v2 != vraw:
                bad.append('raw-tables')
            if bad:
                k = bad[0]
                viol.append((f'C18:sqlite-reopen-differs:{k}', f"reopen #{c + 1} ({how}, use_latlon={use_latlon}): {k}: original {str(orig.get(k))[:200]} vs reopened {str(snap.get(k))[:200]}",
                             {'graph': {str(kk): [list(v[0]), v[1]] for kk, v in g.items()}, 'use_latlon': use_latlon, 'how': how, 'crs': crs, 'cycle': c + 1, 'differs': bad,
                              'settings_updated_and_saved_after_creation': updated}))
                break
        # in-memory map through pickle
        im = InMemMap('pk', use_latlon=use_latlon, use_rtree=False, graph=copy.deepcopy(g), dir=d,
                      linked_edges=rnd.choice([None, {}]), **crs)
        o2 = accessor_snapshot(im, g, boxes, locs)
        im.dump()
        for c in range(cycles):
            m3 = InMemMap.from_pickle(os.path.join(d, 'pk.pkl'))
            s3 = accessor_snapshot(m3, g, boxes, locs)
            extra = []
            for f in ('name', 'use_rtree', 'index_edges', 'linked_edges', 'crs_lonlat', 'crs_xy', 'dir'):
                if getattr(m3, f) != getattr(im, f):
                    extra.append(f)
            bad = diff_snap(o2, s3) + extra
            if bad and not viol:
                k = bad[0]
                viol.append((f'C18:pickle-reopen-differs:{k}', f"pickle cycle #{c + 1}: {k} differs",
                             {'graph': {str(kk): [list(v[0]), v[1]] for kk, v in g.items()}, 'use_latlon': use_latlon, 'differs': bad}))
                break
            m3.dump()
    finally:
        shutil.rmtree(d, ignore_errors=True)
    return {'nontrivial': how in ('deferred', 'mixed') or not use_latlon, 'violations': viol,
            'sample': {'how': how, 'use_latlon': use_latlon, 'crs': crs, 'cycles': cycles, 'nodes': len(g)}}


# ================================================================================================== C12: edge identity on a large import
def edge_identity_suite(chk, tier, seed):
    """The SQLite backend files every directed edge under an id derived from its two labels and recomputes that id when it
    looks an edge up: two edges with the same id are one row.  (a) a large import - n nodes with irregular 10-digit labels
    (OSM-like), every ordered pair an edge, loaded edge by edge - must list the same edges as the in-memory map: with about
    2e5 edges any id narrower than about 40 bits collides with near certainty (birthday bound), (b) small integer labels
    around zero, where the host language's hash of integers is not injective."""
    import tempfile, shutil, random as _r
    from leuvenmapmatching.map.sqlite import SqliteMap
    U.quiet()
    n_maps = 1 if tier == 'quick' else 4
    evals = 0
    for k in range(n_maps):
        rnd = _r.Random(seed * 7919 + k)
        n = 450 if tier == 'quick' else 520
        labels = sorted({rnd.randrange(10 ** 9, 10 ** 10) if k % 2 == 0 else rnd.randrange(1, 10 ** 7) for _ in range(n)})
        d = tempfile.mkdtemp(prefix='c12big_')
        try:
            m = SqliteMap('big', use_latlon=False, dir=d)
            m.add_nodes([(l, (float(i % 23), float(i // 23))) for i, l in enumerate(labels)])
            expected = 0
            for a in labels:
                for b in labels:
                    if a != b:
                        m.add_edge(a, b, no_index=True, no_commit=True)
                        expected += 1
            m.db.commit()
            got = m.db.execute('SELECT count(*) FROM edges').fetchone()[0]
            evals += expected
            if got != expected:
                # name the lost edges through the public accessor
                lost = []
                for a in labels:
                    nb = {x[0] for x in m.nodes_nbrto(a)}
                    if len(nb) != len(labels) - 1:
                        lost += [(a, b) for b in labels if b != a and b not in nb][:3]
                    if len(lost) >= 3:
                        break
                chk.violation(key='C12:large-import-loses-edges(edge-id-collision)',
                              text=f"{len(labels)} nodes with {'10-digit' if k % 2 == 0 else '7-digit'} labels, every ordered pair added with add_edge: the in-memory map holds {expected} edges, "
                                   f"the SQLite map {got}; e.g. nodes_nbrto misses {lost[:3]}",
                              replay={'kind': 'bounded', 'suite': 'edge-identity', 'labels_seed': seed * 7919 + k, 'n': len(labels), 'expected_edges': expected,
                                      'sqlite_edges': got, 'lost': lost[:3]})
        finally:
            shutil.rmtree(d, ignore_errors=True)
    # (b) labels around zero
    small = 0
    for la, lb in ((-1, -2), (-2, -1), (0, -1), (-3, -2), (1, 2), (0, 2 ** 61 - 1), (5, 5 + 2 ** 61 - 1)):
        d = tempfile.mkdtemp(prefix='c12small_')
        try:
            m = SqliteMap('small', use_latlon=False, dir=d)
            for kk, p in ((la, (0.0, 0.0)), (lb, (0.0, 1.0)), (7, (1.0, 1.0))):
                m.add_node(kk, p)
            pairs = [(la, 7), (lb, 7), (7, la), (7, lb)]
            for a, b in pairs:
                m.add_edge(a, b)
            got = sorted((e[0], e[2]) for e in m.all_edges())
            small += 1
            if got != sorted(pairs):
                host = (la, 7).__hash__() == (lb, 7).__hash__()
                chk.violation(key=f"C12:edge-dropped:labels-with-equal-host-hash" if host else 'C12:edge-dropped:small-labels',
                              text=f"nodes {la}, {lb}, 7 and edges {pairs} added one by one: SqliteMap.all_edges() lists {got}",
                              replay={'kind': 'bounded', 'suite': 'edge-identity', 'labels': [la, lb, 7], 'edges': pairs, 'sqlite_edges': got,
                                      'hash_equal': host})
        finally:
            shutil.rmtree(d, ignore_errors=True)
    chk.bounded_suite('edge-identity(large import + labels around zero)', evals + small, n_maps + small, [],
                      rule=f"{n_maps} map(s) of 450-520 nodes with irregular 10-digit (OSM-like) or 7-digit integer labels drawn from VERIF_SEED, every ordered pair an edge "
                           "(about 2e5-2.7e5 directed edges) added with add_edge: the edge count and the neighbour sets must be those of the in-memory map; "
                           "plus 7 three-node maps with labels around zero and at the word boundary of the host's integer hash (-1/-2, 0/2^61-1)",
                      bounds='ids narrower than about 40 bits collide with near certainty at this size; wider ids are only probed at the listed small labels')


# ================================================================================================== C18: another session
def cross_process_suite(chk, tier, seed):
    """'Written to disk and opened again' normally means: opened by another interpreter session.  The maps (SqliteMap with
    linked parallel roads from connect_parallelroads, InMemMap pickle) are built and queried in one sub-process and opened and
    queried again in other sub-processes with other string-hash seeds; every accessor must answer identically."""
    import subprocess, sys, json
    from checks.common import VERIF, REPO
    n = 40 if tier == 'quick' else 600
    base = (seed * 104729) % (2 ** 30)
    d = tempfile.mkdtemp(prefix='verif_c18x_')
    try:
        outs = {}
        for mode, hs in (('build', '11'), ('reopen', '22'), ('reopen', '0')):
            env = dict(os.environ, PYTHONHASHSEED=hs, PYTHONPATH=f"{REPO}:{VERIF}")
            p = subprocess.run([sys.executable, '-W', 'ignore', os.path.join(VERIF, 'rtc', 'reopen_child.py'), mode, d, str(base), str(n)],
                               capture_output=True, text=True, env=env, timeout=3000)
            try:
                outs[(mode, hs)] = json.loads(p.stdout.strip().splitlines()[-1])
            except Exception:
                chk.undecided.append(f"cross-process child ({mode}, PYTHONHASHSEED={hs}) failed: {p.stderr[-300:]}")
                return
        ref = outs[('build', '11')]
        linked = 0
        for (mode, hs), o in outs.items():
            if mode == 'build':
                continue
            for i, (a, b) in enumerate(zip(ref, o)):
                linked += 1 if a['sqlite'].get('linked-rows') else 0
                for kind in ('sqlite', 'pickle'):
                    bad = [k for k in a[kind] if a[kind][k] != b[kind].get(k)]
                    if bad:
                        k = bad[0]
                        chk.violation(key=f"C18:{kind}-differs-in-another-session:{k}",
                                      text=f"map #{i} built in one process (PYTHONHASHSEED=11), opened in another (PYTHONHASHSEED={hs}): {k}: {a[kind][k][:200]} vs {str(b[kind].get(k))[:200]}",
                                      replay={'kind': 'bounded', 'suite': 'another-session', 'graph': a['graph'], 'differs': bad, 'case': base + i,
                                              'original': a[kind][k][:600], 'reopened': str(b[kind].get(k))[:600]})
                        break
        chk.bounded_suite('another-session(sub-processes)', n * 2 * 2, linked // 2, [ref[0]['graph']] if ref else [],
                          rule="integer-labelled planar graphs of 3-6 nodes plus a parallel road a quarter unit next to one edge; SqliteMap filled edge by edge, "
                               "connect_parallelroads(0.5); InMemMap pickle; built and queried in a sub-process with PYTHONHASHSEED=11, opened and queried again in "
                               "sub-processes with PYTHONHASHSEED=22 and 0; every accessor of the snapshot (incl. edges_nbrto with the linked edges) compared; "
                               "non-trivial = the map has linked parallel edges", bounds="graphs <= 8 nodes")
    finally:
        shutil.rmtree(d, ignore_errors=True)
