"""Independent spherical reference (3-D unit vectors, numpy double precision) for the lat-lon primitives.
Written from spherical geometry, not from the code: R = 6 371 000 m."""
import math
import numpy as np

R = 6371000.0


def vec(lat, lon):
    la, lo = math.radians(lat), math.radians(lon)
    return np.array([math.cos(la) * math.cos(lo), math.cos(la) * math.sin(lo), math.sin(la)])


def latlon(v):
    v = v / np.linalg.norm(v)
    return math.degrees(math.asin(max(-1.0, min(1.0, v[2])))), math.degrees(math.atan2(v[1], v[0]))


def angle(u, v):
    # numerically stable angle between unit vectors
    return math.atan2(np.linalg.norm(np.cross(u, v)), float(np.dot(u, v)))


def gc_distance(p, q):
    return R * angle(vec(*p[:2]), vec(*q[:2]))


def nearest_on_arc(p, a, b):
    """nearest point of the (minor) great-circle arc a-b to p: (distance, point(lat,lon), relative position in [0,1])"""
    P, A, B = vec(*p[:2]), vec(*a[:2]), vec(*b[:2])
    ab = angle(A, B)
    if ab == 0.0:
        return R * angle(P, A), (a[0], a[1]), 0.0
    n = np.cross(A, B)
    n = n / np.linalg.norm(n)
    # projection of P on the great circle plane
    q = P - np.dot(P, n) * n
    if np.linalg.norm(q) < 1e-15:
        return R * angle(P, A), (a[0], a[1]), 0.0
    q = q / np.linalg.norm(q)
    # signed along-track angle from A
    t = math.atan2(float(np.dot(np.cross(A, q), n)), float(np.dot(A, q)))
    if 0.0 <= t <= ab:
        return R * angle(P, q), latlon(q), t / ab
    da, db = angle(P, A), angle(P, B)
    if da <= db:
        return R * da, (a[0], a[1]), 0.0
    return R * db, (b[0], b[1]), 1.0


def destination(p, bearing_deg, dist):
    P = vec(*p[:2])
    la, lo = math.radians(p[0]), math.radians(p[1])
    north = np.array([-math.sin(la) * math.cos(lo), -math.sin(la) * math.sin(lo), math.cos(la)])
    east = np.array([-math.sin(lo), math.cos(lo), 0.0])
    th = math.radians(bearing_deg)
    d = north * math.cos(th) + east * math.sin(th)
    delta = dist / R
    return latlon(P * math.cos(delta) + d * math.sin(delta))


def seg_seg_distance(f1, f2, t1, t2, n=400):
    """dense sampling upper bound + end-point projections (the minimum is attained at an end point unless the arcs cross)"""
    best = min(nearest_on_arc(f1, t1, t2)[0], nearest_on_arc(f2, t1, t2)[0], nearest_on_arc(t1, f1, f2)[0], nearest_on_arc(t2, f1, f2)[0])
    # crossing test on the sphere
    F1, F2, T1, T2 = (vec(*x[:2]) for x in (f1, f2, t1, t2))
    nf, nt = np.cross(F1, F2), np.cross(T1, T2)
    x = np.cross(nf, nt)
    if np.linalg.norm(x) > 0:
        nfu, ntu = nf / np.linalg.norm(nf), nt / np.linalg.norm(nt)
        for sgn in (1.0, -1.0):
            X = sgn * x / np.linalg.norm(x)

            def on(A, B, n_, X_):
                # X lies on the minor arc A-B of the great circle with normal n_: orientation tests (robust at any scale)
                return float(np.dot(np.cross(A, X_), n_)) >= 0 and float(np.dot(np.cross(X_, B), n_)) >= 0
            if on(F1, F2, nfu, X) and on(T1, T2, ntu, X):
                return 0.0
    return best


def local_project(p, origin):
    """equirectangular tangent-plane coordinates (metres): y north, x east, around origin"""
    dlon = (p[1] - origin[1] + 180.0) % 360.0 - 180.0          # shortest way round (the map may straddle the antimeridian)
    return (R * math.radians(p[0] - origin[0]), R * math.cos(math.radians(origin[0])) * math.radians(dlon))


def foot_on_great_circle(p, a, b):
    """foot of the perpendicular from p on the WHOLE great circle through a and b: (distance in metres, foot point,
    signed relative position: 0 at a, 1 at b, negative before a)"""
    P, A, B = vec(*p), vec(*a), vec(*b)
    n = (A[1] * B[2] - A[2] * B[1], A[2] * B[0] - A[0] * B[2], A[0] * B[1] - A[1] * B[0])
    ln = math.sqrt(sum(x * x for x in n))
    n = tuple(x / ln for x in n)
    dpn = sum(x * y for x, y in zip(P, n))
    F = tuple(x - dpn * y for x, y in zip(P, n))
    lf = math.sqrt(sum(x * x for x in F))
    F = tuple(x / lf for x in F)
    # signed angle from A to F around n
    c = (A[1] * F[2] - A[2] * F[1], A[2] * F[0] - A[0] * F[2], A[0] * F[1] - A[1] * F[0])
    ang = math.atan2(sum(x * y for x, y in zip(c, n)), sum(x * y for x, y in zip(A, F)))
    tot = angle(A, B)
    return R * abs(math.asin(max(-1.0, min(1.0, dpn)))), latlon(F), ang / tot


def point_on_arc(a, b, u):
    """the point at fraction u of the great-circle arc a -> b (spherical linear interpolation)"""
    A, B = vec(*a[:2]), vec(*b[:2])
    w = angle(A, B)
    if w < 1e-15:
        return (a[0], a[1])
    return latlon((math.sin((1 - u) * w) * A + math.sin(u * w) * B) / math.sin(w))
