#!/bin/sh
# Runs the repository's pinned baseline (43 stable tests) with the verification guard OFF and compares with BASELINE.json.
# usage: bin/baseline.sh [repo_dir]
R="${1:-/repo}"
unset LEUVENMAPMATCHING_VERIF
OUT=$(mktemp /tmp/baseline.XXXXXX.xml)
cd "$R" && PYTHONPATH="$R" /venv/bin/python -m pytest -ra -q -p no:cacheprovider --timeout=900 --continue-on-collection-errors --junitxml="$OUT" >/dev/null 2>&1
/venv/bin/python - "$OUT" <<'PY'
import sys, json, xml.etree.ElementTree as ET
base = json.load(open('/root/.vp/BASELINE.json'))['stable_pass']
t = ET.parse(sys.argv[1]).getroot()
ok = set()
for tc in t.iter('testcase'):
    if not any(c.tag in ('failure', 'error', 'skipped') for c in tc):
        ok.add(f"{tc.get('classname')}::{tc.get('name')}")
missing = [b for b in base if b not in ok]
print(f"baseline: {len(base) - len(missing)}/{len(base)} stable tests pass")
for m in missing:
    print("  FAILING:", m)
sys.exit(1 if missing else 0)
PY
RC=$?
rm -f "$OUT"
exit $RC
