#!/bin/sh
# usage: bin/seedtest.sh <seed_dir> <check ids...>
# 1. scratch worktree: demo must exit 1 with the patch and the baseline must stay 43/43;  2. demo exits 0 on /repo as is;
# 3. apply the patch to /repo, run the named checks (quick), undo the patch.  Prints one summary line per step.
SD="$(cd "$1" && pwd)"; shift
W=$(mktemp -d /tmp/sw_XXXXXX); rmdir "$W"
git -C /repo worktree add -q --detach "$W" HEAD || exit 9
( cd "$W" && git apply "$SD/patch.diff" ) || { echo "SEED patch does not apply"; git -C /repo worktree remove --force "$W"; exit 9; }
export TMPDIR=$(mktemp -d /tmp/st_tmp_XXXXXX)
PYTHONPATH="$W" timeout 600 /venv/bin/python "$SD/demo.py" >/dev/null 2>&1; echo "demo-with-patch exit=$?"
/verif/bin/baseline.sh "$W" | head -3
git -C /repo worktree remove --force "$W"
PYTHONPATH=/repo timeout 600 /venv/bin/python "$SD/demo.py" >/dev/null 2>&1; echo "demo-on-clean-repo exit=$?"
rm -rf "$TMPDIR"; unset TMPDIR
[ -n "$(git -C /repo status --porcelain)" ] && { echo "/repo not clean"; exit 9; }
git -C /repo apply "$SD/patch.diff" || exit 9
for c in "$@"; do
  out=$(timeout 1500 /verif/bin/check "$c" --tier quick 2>&1); rc=$?
  echo "check $c exit=$rc $(echo "$out" | grep -c '^VIOLATION') violation line(s)"
  echo "$out" | grep -A1 '^VIOLATION' | head -4 | cut -c1-330
done
git -C /repo checkout -- .
git -C /repo status --porcelain | head -3
