#!/bin/sh
# Offline build of the verification venv (python 3.12 + z3-solver, cvc5, jsonschema, icontract, deal,
# crosshair-tool from the local wheelhouse; numpy/scipy come from /venv through a .pth overlay).
set -e
cd "$(dirname "$0")/.."
V=.venv
if [ -x "$V/bin/python" ] && "$V/bin/python" -c "import z3, cvc5, jsonschema, numpy, scipy" 2>/dev/null; then
  echo "setup: $V already usable"; exit 0
fi
rm -rf "$V"
/venv/bin/python -m venv "$V"
PIP_NO_INDEX=1 "$V/bin/pip" install -q --no-index --find-links /opt/veriftools/wheels \
    z3-solver cvc5 jsonschema icontract deal crosshair-tool
SP=$("$V/bin/python" -c "import sysconfig; print(sysconfig.get_paths()['purelib'])")
echo "import site; site.addsitedir('/venv/lib/python3.12/site-packages')" > "$SP/_overlay.pth"
PYTHONPATH=/repo "$V/bin/python" - <<'PY'
import z3, cvc5, jsonschema, numpy, scipy, leuvenmapmatching
assert leuvenmapmatching.__file__.startswith('/repo/'), leuvenmapmatching.__file__
print("setup: ok z3", z3.get_version_string(), "numpy", numpy.__version__, "scipy", scipy.__version__)
PY
