#!/usr/bin/env python3
"""For every `fixed:` entry of known_findings.json: revert that fix commit in a scratch worktree and run the quick check
of its property against it (VERIF_REPO): the check must report the violation again (a fixed entry suppresses nothing).
usage: bin/revertall.py [-j N]   -> writes seeded/REVERTED_FIXES.json"""
import json, os, re, subprocess, sys, tempfile, shutil, concurrent.futures as cf
V = os.path.dirname(os.path.dirname(os.path.abspath(__file__)))


def sh(cmd, **kw):
    return subprocess.run(cmd, shell=True, capture_output=True, text=True, **kw)


def one(entry):
    m = re.match(r"fixed: property=(C\d+) ([0-9a-f]+) (\S+)", entry)
    pid, commit, fid = m.group(1), m.group(2), m.group(3)
    w = tempfile.mkdtemp(prefix='revert_')
    os.rmdir(w)
    out = {'finding': fid, 'property': pid, 'commit': commit}
    try:
        sh(f"git -C /repo worktree add -q --detach {w} HEAD")
        r = sh(f"cd {w} && git revert --no-commit {commit}")
        if r.returncode != 0:
            # a later fix touched the same lines: revert the later commits on the same files first (newest first), then this one
            sh(f"cd {w} && git revert --abort; git checkout -q -- . ")
            files = sh(f"cd {w} && git show --name-only --format= {commit}").stdout.split()
            later = sh(f"cd {w} && git log --format=%h {commit}..HEAD -- {' '.join(files)}").stdout.split()
            ok = True
            for c2 in later + [commit]:
                r = sh(f"cd {w} && git revert --no-commit {c2}")
                if r.returncode != 0:
                    ok = False
                    break
            out['also_reverted'] = later
            if not ok:
                out['revert_applies'] = False
                out['note'] = r.stderr[-300:]
                return out
        out['revert_applies'] = True
        tmp = tempfile.mkdtemp(prefix='revert_tmp_')
        cr = sh(f"VERIF_REPO={w} timeout 2400 {V}/bin/check {pid} --tier quick", env=dict(os.environ, TMPDIR=tmp, VERIF_EVIDENCE_DIR=tmp))
        vl = [l for l in cr.stdout.splitlines() if l.startswith('VIOLATION')]
        txt = [l.strip() for l in cr.stdout.splitlines() if l.startswith('  ') and not l.startswith('  ...')]
        out.update(check_exit=cr.returncode, violation_lines=len(vl), first=(txt[0][:300] if txt else cr.stdout[-300:]))
        shutil.rmtree(tmp, ignore_errors=True)
    finally:
        sh(f"cd {w} && git revert --abort; git -C /repo worktree remove --force {w}")
    return out


if __name__ == '__main__':
    j = int(sys.argv[2]) if len(sys.argv) > 2 and sys.argv[1] == '-j' else 3
    fixed = json.load(open(os.path.join(V, 'known_findings.json')))['fixed']
    res = []
    with cf.ThreadPoolExecutor(j) as ex:
        for o in ex.map(one, fixed):
            res.append(o)
            print(o['finding'], o['property'], o['commit'], 'revert ok' if o.get('revert_applies') else 'REVERT CONFLICT',
                  'check exit', o.get('check_exit'), (o.get('first') or '')[:140], flush=True)
    json.dump(res, open(os.path.join(V, 'seeded', 'REVERTED_FIXES.json'), 'w'), indent=1)
