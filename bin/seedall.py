#!/usr/bin/env python3
"""Runs every seeded change (seeded/*/patch.diff) in a scratch worktree: demo with / without the patch, baseline, and the
quick check of the seed's property (plus extra checks given as arguments) with VERIF_REPO pointing at the patched copy.
Writes seeded/RESULTS.json.  usage: bin/seedall.py [-j N] [seed names...]"""
import json, os, subprocess, sys, tempfile, shutil, concurrent.futures as cf
V = os.path.dirname(os.path.dirname(os.path.abspath(__file__)))


def sh(cmd, **kw):
    return subprocess.run(cmd, shell=True, capture_output=True, text=True, **kw)


def one(name):
    sd = os.path.join(V, 'seeded', name)
    meta = json.load(open(os.path.join(sd, 'meta.json')))
    pid = meta.get('property', name.split('-')[0])
    pid = pid if pid.startswith('C') and len(pid) == 3 else name.split('-')[0]
    w = tempfile.mkdtemp(prefix='seedall_')
    os.rmdir(w)
    out = {'seed': name, 'property': pid}
    try:
        r = sh(f"git -C /repo worktree add -q --detach {w} HEAD")
        tmp = tempfile.mkdtemp(prefix='seedall_tmp_')
        env = dict(os.environ, TMPDIR=tmp)
        out['demo_clean_exit'] = sh(f"PYTHONPATH={w} timeout 900 /venv/bin/python {sd}/demo.py", env=env).returncode
        r = sh(f"cd {w} && git apply {sd}/patch.diff")
        out['patch_applies'] = r.returncode == 0
        if r.returncode == 0:
            out['demo_patched_exit'] = sh(f"PYTHONPATH={w} timeout 900 /venv/bin/python {sd}/demo.py", env=env).returncode
            b = sh(f"{V}/bin/baseline.sh {w}", env=env)
            out['baseline'] = b.stdout.strip().splitlines()[0] if b.stdout.strip() else b.stderr[-200:]
            checks = [pid] + [c for c in EXTRA if c != pid]
            out['checks'] = {}
            for c in checks:
                cr = sh(f"VERIF_REPO={w} timeout 2400 {V}/bin/check {c} --tier quick", env=dict(env, VERIF_EVIDENCE_DIR=tmp))
                vl = [l for l in cr.stdout.splitlines() if l.startswith('VIOLATION')]
                txt = [l.strip() for l in cr.stdout.splitlines() if l.startswith('  ') and not l.startswith('  ...')]
                out['checks'][c] = {'exit': cr.returncode, 'violation_lines': len(vl), 'first': (txt[0][:300] if txt else ''),
                                    'suffix_no_failing_input': sum(1 for l in vl if l.endswith('no-failing-input-found'))}
        shutil.rmtree(tmp, ignore_errors=True)
    finally:
        sh(f"git -C /repo worktree remove --force {w}")
    return out


if __name__ == '__main__':
    args = sys.argv[1:]
    j = 4
    if args and args[0] == '-j':
        j = int(args[1]); args = args[2:]
    EXTRA = [a for a in args if a.startswith('+')]
    EXTRA = [a[1:] for a in EXTRA]
    names = [a for a in args if not a.startswith('+')] or sorted(d for d in os.listdir(os.path.join(V, 'seeded')) if os.path.isdir(os.path.join(V, 'seeded', d)))
    res = {}
    with cf.ThreadPoolExecutor(j) as ex:
        for o in ex.map(one, names):
            res[o['seed']] = o
            ok = o.get('demo_clean_exit') == 0 and o.get('demo_patched_exit') == 1 and '43/43' in str(o.get('baseline'))
            det = {c: v['exit'] for c, v in o.get('checks', {}).items()}
            print(o['seed'], 'confirmed' if ok else f"NOT CONFIRMED {o}", 'checks:', det, flush=True)
    p = os.path.join(V, 'seeded', 'RESULTS.json')
    old = json.load(open(p)) if os.path.exists(p) else {}
    old.update(res)
    json.dump(old, open(p, 'w'), indent=1)
