#!/usr/bin/env python3
"""Regenerates MANIFEST.json from checks/registry.py (single source of truth for the interface)."""
import json, os, sys
sys.path.insert(0, os.path.dirname(os.path.dirname(os.path.abspath(__file__))))
from checks.registry import CHECKS, NOT_APPLICABLE, NOTES
props = [json.loads(l)['id'] for l in open(os.path.join(os.path.dirname(__file__), '..', 'properties.jsonl'))]
m = {
    "version": 1,
    "setup_cmd": "bin/setup.sh",
    "hooks": {"guard": "LEUVENMAPMATCHING_VERIF",
              "enable": "no instrumentation of /repo is needed: contracts and monitors are sidecar files under /verif that read /repo's "
                        "working tree on every run; bin/check exports LEUVENMAPMATCHING_VERIF=1 only as a reserved name",
              "baseline_off_cmd": "bin/baseline.sh", "source_commits": [], "add_only": True},
    "engines": [
        {"name": "pyvc", "path": "pyvc/", "serves_properties": sorted(c['property_id'] for c in CHECKS if c.get('deductive', True)),
         "kind_free_text": "VC generator: symbolic execution of the real Python AST (re-read from /repo each run) against sidecar "
                           "contracts, loop cut points with invariants, callee contracts at call sites; obligations discharged by z3 5.1 "
                           "(portfolio smt/default), cvc5 1.0.3 and z3 4.8.12 as fall-backs; counter-models replayed on the real code"},
        {"name": "rtc", "path": "rtc/", "serves_properties": sorted(c['property_id'] for c in CHECKS),
         "kind_free_text": "run-time form of the same contracts + spec oracles on a stated finite universe: bounded stand-in, "
                           "never counted as proved"}],
    "checks": [], "notes": NOTES, "not_applicable": []}
seen = set()


def spec_text(pid, fallback):
    """the claim text is generated from the check's own SPEC (clause groups actually selected + bounded suites), so that it
    cannot drift from what runs"""
    try:
        import importlib
        os.environ.setdefault('VERIF_REPO', '/repo')
        sys.path.insert(0, os.environ['VERIF_REPO'])
        mod = importlib.import_module(f"checks.{pid}")
        sp = getattr(mod, 'SPEC', None)
    except Exception:
        sp = None
    if not sp:
        return fallback
    ded = "; ".join(g for g, _, _ in sp.get('deductive', []))
    bnd = "; ".join(f"{b[0]} ({b[2]} cases quick / {b[3]} thorough)" for b in sp.get('bounded', []))
    post = "; ".join(f.__name__.replace('_', ' ') for f in sp.get('post', []))
    t = f"Deductive clause groups, each over every path of the real function for all inputs (pyvc, z3): {ded}. Bounded (never counted as proved): {bnd}"
    if post:
        t += f"; {post}"
    return t + ". " + fallback.split('Bounded')[0].strip()[:0]


for c in CHECKS:
    pid = c['property_id']
    seen.add(pid)
    c = dict(c, text=spec_text(pid, c['text']))
    m["checks"].append({
        "property_id": pid,
        "quick_cmd": f"bin/check {pid} --tier quick",
        "thorough_cmd": f"bin/check {pid} --tier thorough",
        "evidence_file": f"evidence/{pid}.json",
        "replay_cmd_template": f"bin/check {pid} --replay {{path}}",
        "engine": "pyvc+rtc",
        "level_claimed": {"category": c['category'], "text": c['text'], "design_ref": c.get('design_ref', f"DESIGN.md section 5 / {pid}")},
        "level_note": c['note'],
        "technique": c['technique']})
for pid in props:
    if pid not in seen:
        m["not_applicable"].append({"property_id": pid, "reason": NOT_APPLICABLE.get(pid, "no check registered yet (work in progress in this session)")})
json.dump(m, open(os.path.join(os.path.dirname(__file__), '..', 'MANIFEST.json'), 'w'), indent=1)
import jsonschema
jsonschema.validate(m, json.load(open('/root/.vp/MANIFEST.schema.json')))
print("MANIFEST.json written:", len(m['checks']), "checks,", len(m['not_applicable']), "not applicable")
