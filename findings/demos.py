"""Witness inputs of the genuine defects found on the pinned tree (each function returns None when the
behaviour is correct and a description of the failure otherwise).  Run: PYTHONPATH=/repo python findings/demos.py"""
import logging
import math
import os
import subprocess
import sys
import tempfile
import shutil


def F1_hashseed():
    """C10: result depends on PYTHONHASHSEED (values_all() was a set hashed by a string)."""
    code = ("from leuvenmapmatching.map.inmem import InMemMap\n"
            "from leuvenmapmatching.matcher.simple import SimpleMatcher\n"
            "m=InMemMap('m',use_latlon=False,graph={'A':((0,0),['B']),'B':((0,2),['A'])})\n"
            "mt=SimpleMatcher(m,obs_noise=1,non_emitting_states=False)\n"
            "print(mt.match([(0.5,1.0),(0.5,1.0)]))\n")
    outs = set()
    for seed in ('0', '1', '2', '3', '4', '5'):
        env = dict(os.environ, PYTHONHASHSEED=seed)
        outs.add(subprocess.check_output([sys.executable, '-c', code], env=env, stderr=subprocess.DEVNULL).decode())
    return None if len(outs) == 1 else f"different results under different hash seeds: {sorted(outs)}"


def F2_long_edge():
    """C11/C01: InMemMap.edges_closeto pre-filtered start nodes by the box -> long edges dropped."""
    from leuvenmapmatching.map.inmem import InMemMap
    m = InMemMap('m', use_latlon=False, graph={'A': ((0, -10), ['B']), 'B': ((0, 10), ['A'])})
    r = m.edges_closeto((0.5, 0), max_dist=1)
    return None if len(r) == 2 else f"edges_closeto((0.5,0), 1) on A(0,-10)<->B(0,10) returned {r}, expected both directed edges at distance 0.5"


def F3_latlon_box():
    """C14/C11: lat-lon box_around_point does not contain the disc."""
    from leuvenmapmatching.util import dist_latlon as dl
    bad = []
    for lat, lon, d in ((50, 4, 100), (35, 120, 100), (0, 0, 50), (-59, -75, 500), (59.9, 10, 2000)):
        box = dl.box_around_point((lat, lon), d)
        for b in range(0, 3600):
            la, lo = dl.destination_radians(math.radians(lat), math.radians(lon), math.radians(b / 10), d * 0.999)
            la, lo = math.degrees(la), math.degrees(lo)
            if not (box[0] <= la <= box[2] and box[1] <= lo <= box[3]):
                bad.append((lat, lon, d, b / 10))
                break
    return None if not bad else f"points at 0.999*dist lie outside box_around_point: {bad[:3]}"


def F6c_latlon_inf():
    """C17: lat-lon map, matcher without max_dist(_init): box_around_point(.., inf) raised ValueError."""
    from leuvenmapmatching.map.inmem import InMemMap
    from leuvenmapmatching.matcher.distance import DistanceMatcher
    m = InMemMap('m', use_latlon=True, graph={1: ((50.0, 4.0), [2]), 2: ((50.001, 4.0), [1])})
    try:
        r = DistanceMatcher(m, obs_noise=10).match([(50.0002, 4.0001), (50.0008, 4.0001)])
    except Exception as e:
        return f"match on a lat-lon map without max_dist raised {e!r}"
    return None if r[1] == 1 else f"unexpected result {r}"


def F4_sqlite_bb():
    """C12: SqliteMap.bb() returned the longitude range as latitude range."""
    from leuvenmapmatching.map.sqlite import SqliteMap
    d = tempfile.mkdtemp(prefix='verif_f4_')
    try:
        m = SqliteMap('m', use_latlon=False, dir=d)
        m.add_nodes([(1, (0, -10)), (2, (0, 10)), (3, (5, 7))])
        bb = m.bb()
        m.db.close()
    finally:
        shutil.rmtree(d, ignore_errors=True)
    return None if tuple(bb) == (0, -10, 5, 10) else f"bb() = {bb}, expected (0, -10, 5, 10)"


def F6a_obs_on_road():
    """C17: SimpleMatcher.logprob_obs(0.0) > 0 by one ulp -> 'logprob_obs > 0' exception for an observation on a road."""
    from leuvenmapmatching.map.inmem import InMemMap
    from leuvenmapmatching.matcher.simple import SimpleMatcher
    bad = []
    for noise in (0.09, 0.55, 1.3, 1.96, 1, 2, 0.5):
        m = InMemMap('m', use_latlon=False, graph={'A': ((0, 0), ['B']), 'B': ((0, 2), ['A'])})
        try:
            SimpleMatcher(m, obs_noise=noise, non_emitting_states=False).match([(0, 0.5), (0, 1.0), (0, 1.5)])
        except Exception as e:
            bad.append((noise, repr(e)[:80]))
    return None if not bad else f"match raised for observations lying on the road: {bad[:3]}"


def F6b_triples_planar_ne():
    """C17: planar metric + non-emitting states + (y, x, time) triples raised 'too many values to unpack'."""
    from leuvenmapmatching.map.inmem import InMemMap
    from leuvenmapmatching.matcher.distance import DistanceMatcher
    g = {'A': ((0, 0), ['B']), 'B': ((0, 1), ['A', 'C']), 'C': ((0, 2), ['B', 'D']), 'D': ((0, 3), ['C'])}
    pairs = [(0.1, 0.2), (0.1, 2.8)]
    m = InMemMap('m', use_latlon=False, graph=g)
    r1 = DistanceMatcher(m, obs_noise=1, max_dist=5, non_emitting_states=True).match(pairs)
    try:
        r2 = DistanceMatcher(m, obs_noise=1, max_dist=5, non_emitting_states=True).match([p + (float(i),) for i, p in enumerate(pairs)])
    except Exception as e:
        return f"triples raised {e!r} (pairs gave {r1})"
    return None if r1 == r2 else f"pairs {r1} != triples {r2}"


def F7_sqlite_reopen_flag():
    """C18: planar SqliteMap reopened with from_file reported use_latlon == True and used the lat-lon metric."""
    from leuvenmapmatching.map.sqlite import SqliteMap
    d = tempfile.mkdtemp(prefix='verif_f7_')
    try:
        m = SqliteMap('m', use_latlon=False, dir=d)
        m.add_nodes([(1, (0, 0)), (2, (0, 3))])
        m.add_edges([(1, 2), (2, 1)])
        before = (m.use_latlon, m.distance((0, 0), (0, 3)))
        m.db.close()
        m2 = SqliteMap.from_file(os.path.join(d, 'm.sqlite'))
        after = (m2.use_latlon, m2.distance((0, 0), (0, 3)))
        m2.db.close()
    finally:
        shutil.rmtree(d, ignore_errors=True)
    return None if before == after else f"before reopen (use_latlon, distance((0,0),(0,3))) = {before}, after = {after}"


def F8_debug_changes_result():
    """C19: under DEBUG a trace whose start candidates are all cut off returned (None, k) instead of ([], 0)."""
    from leuvenmapmatching.map.inmem import InMemMap
    from leuvenmapmatching.matcher.simple import SimpleMatcher
    import leuvenmapmatching
    lg = leuvenmapmatching.logger
    g = {'A': ((0, 0), ['B']), 'B': ((0, 2), ['A'])}
    path = [(1.5, 1.0), (1.5, 1.2), (1.5, 1.4)]
    out = []
    for level in (logging.ERROR, logging.DEBUG):
        old = lg.level
        lg.setLevel(level)
        h = logging.NullHandler()
        lg.addHandler(h)
        try:
            m = InMemMap('m', use_latlon=False, graph=g)
            # candidates exist within max_dist_init but all fail min_prob_norm
            out.append(SimpleMatcher(m, obs_noise=0.5, max_dist_init=3, min_prob_norm=0.5, non_emitting_states=False).match(path))
        except Exception as e:
            out.append(repr(e))
        finally:
            lg.removeHandler(h)
            lg.setLevel(old)
    return None if out[0] == out[1] else f"ERROR level -> {out[0]}, DEBUG level -> {out[1]}"


def F12_sqlite_float32():
    """C11: SqliteMap.nodes_closeto dropped nodes at coordinates ~1e7 (containment test on float32 R-tree columns)."""
    from leuvenmapmatching.map.sqlite import SqliteMap
    d = tempfile.mkdtemp(prefix='verif_f12_')
    try:
        m = SqliteMap('m', use_latlon=False, dir=d)
        base = 1e7
        nodes = [(i, (base + 0.37 * i, base + 0.41 * i)) for i in range(40)]
        m.add_nodes(nodes)
        missing = []
        for qi in range(0, 40, 3):
            loc = (base + 0.37 * qi + 0.11, base + 0.41 * qi - 0.07)
            got = {k for _, k, _ in m.nodes_closeto(loc, max_dist=5)}
            exp = {k for k, c in nodes if math.hypot(c[0] - loc[0], c[1] - loc[1]) < 5}
            if got != exp:
                missing.append((loc, sorted(exp - got), sorted(got - exp)))
        m.db.close()
    finally:
        shutil.rmtree(d, ignore_errors=True)
    return None if not missing else f"nodes_closeto at 1e7 scale differs from exhaustive scan: {missing[:2]}"


def F5a_parallel():
    """C13: distance_segment_to_segment for collinear / parallel / zero-length segments."""
    from leuvenmapmatching.util import dist_euclidean as de
    bad = []
    for args, exp in ((((0, 0), (1, 0), (2, 0), (3, 0)), 1.0), (((0, 0), (-2, 0), (-1.5, 6.1e-5), (-3, 6.1e-5)), 6.1e-5),
                      (((0, 0), (0, 0), (1, 1), (2, 2)), math.sqrt(2))):
        d = de.distance_segment_to_segment(*args)[0]
        if abs(d - exp) > 1e-9:
            bad.append((args, d, exp))
    return None if not bad else f"wrong segment distance: {bad}"


def F15_latlon_triples_node_mode():
    """C17: lat-lon metric, node-and-edge states, non-emitting states, (lat, lon, time) triples raised 'too many values to unpack'
    (dist_latlon.distance_point_to_segment unpacked the segment end points, which are observations here)."""
    from leuvenmapmatching.map.inmem import InMemMap
    from leuvenmapmatching.matcher.simple import SimpleMatcher
    g = {1: ((50.0, 4.0), [2]), 2: ((50.001, 4.0), [1, 3]), 3: ((50.002, 4.0), [2, 4]), 4: ((50.003, 4.0), [3])}
    pairs = [(50.0001, 4.0001), (50.0029, 4.0001)]
    out = []
    for tr in (pairs, [p + (float(i),) for i, p in enumerate(pairs)]):
        m = InMemMap('m', use_latlon=True, graph={k: (v[0], list(v[1])) for k, v in g.items()})
        try:
            out.append(SimpleMatcher(m, obs_noise=20, max_dist=200, non_emitting_states=True, only_edges=False).match(tr))
        except Exception as e:
            out.append(repr(e))
    return None if out[0] == out[1] else f"pairs -> {out[0]}, triples -> {out[1]}"


def F20_debug_placeholder_order_in_ne_layer():
    """C19: under DEBUG a stopped placeholder in a non-emitting layer kept its dictionary position when a live candidate
    for the same key arrived (direct dict writes of _match_non_emitting_states_inner): among exactly equally probable
    non-emitting states another one ended the returned path."""
    from leuvenmapmatching.map.inmem import InMemMap
    from leuvenmapmatching.matcher.distance import DistanceMatcher
    g = {"A": ((-0.25, 0), ["B", "D"]), "B": ((0.25, 2), ["A", "C", "E"]), "C": ((0.25, 4), ["B", "F"]), "D": ((2, 0), ["A", "E", "G"]),
         "E": ((2, 2), ["B", "D", "F", "H"]), "F": ((2, 4.25), ["C", "E", "I"]), "G": ((4, 0), ["D", "H"]), "H": ((4, 2.25), ["E", "G", "I"]),
         "I": ((4.25, 4), ["F", "H"])}
    tr = [(2, 4.25), (4.25, 2.25), (2.25, 4.5)]
    lg = logging.getLogger("be.kuleuven.cs.dtai.mapmatching")
    out = []
    for level in (logging.ERROR, logging.DEBUG):
        old = lg.level
        h = logging.NullHandler()
        lg.addHandler(h)
        lg.setLevel(level)
        try:
            m = InMemMap('m', use_latlon=False, use_rtree=False, graph={k: (v[0], list(v[1])) for k, v in g.items()})
            mt = DistanceMatcher(m, obs_noise=1, obs_noise_ne=4, non_emitting_states=True, max_lattice_width=3, min_prob_norm=0.5,
                                 avoid_goingback=True)
            mt.match(tr[:1])
            mt.match(tr[:2], expand=True)
            mt.increase_max_lattice_width(3)
            r = mt.match(tr[:3], expand=True)
            out.append((list(r[0]), r[1]))
        finally:
            lg.setLevel(old)
            lg.removeHandler(h)
    return None if out[0] == out[1] else f"ERROR level -> {out[0]}, DEBUG level -> {out[1]}"


def F21_antimeridian_box():
    """C11/C15: the lat-lon search box left [-180, 180] near the antimeridian, so nodes and edges on the other side of the
    date line were never candidates (node 22 m east of the query location, across longitude 180)."""
    from leuvenmapmatching.map.inmem import InMemMap
    m = InMemMap('m', use_latlon=True, use_rtree=False, graph={1: ((10.0, 179.9999), [2]), 2: ((10.0, -179.9999), [1])})
    got = sorted(k for d, k, p in m.nodes_closeto((10.0, 179.9999), max_dist=50))
    ge = sorted((a, b) for d, a, pa, b, pb, pi, ti in m.edges_closeto((10.0, -179.9999), max_dist=50))
    return None if got == [1, 2] and ge == [(1, 2), (2, 1)] else f"nodes_closeto((10, 179.9999), 50 m) = {got} (expected [1, 2]); edges_closeto((10, -179.9999), 50 m) = {ge}"


def F26_stale_early_stop_on_a_reused_matcher():
    """C19 (and matcher reuse): match() returned ([], 0) for a trace without start candidates BEFORE it reset early_stop_idx, so a
    matcher used for an earlier trace kept that trace's early-stop index (at DEBUG the placeholders made it 0): best_last_matches()
    raised KeyError at the default level and returned nothing at DEBUG."""
    from leuvenmapmatching.map.inmem import InMemMap
    from leuvenmapmatching.matcher.simple import SimpleMatcher
    g = {"0": ((0.5, 1), ["3", "1"]), "1": ((1, 3), ["0", "2"]), "2": ((2.5, 0), ["1", "3"]), "3": ((0, 0.5), ["0", "2"])}
    lg = logging.getLogger("be.kuleuven.cs.dtai.mapmatching")
    out = []
    for level in (logging.ERROR, logging.DEBUG):
        old = lg.level
        h = logging.NullHandler()
        lg.addHandler(h)
        lg.setLevel(level)
        try:
            mt = SimpleMatcher(InMemMap('m', use_latlon=False, use_rtree=False, graph=g), obs_noise=0.5, max_dist=1.5, max_dist_init=2,
                               max_lattice_width=1, only_edges=False, non_emitting_states=False)
            mt.match([(0.5, 0.25), (0.75, 0.25), (2.5, 0.25), (1.25, 2.5), (1.75, 1.25)])      # stops early at observation 3
            r = mt.match([(3.75, 1.5), (2, 1.5)])                                                # no start candidate
            try:
                b = dict(mt.best_last_matches(k=1, nb_obs=2))
            except Exception as e:
                b = f"raised {type(e).__name__}"
            out.append((r, mt.early_stop_idx in (None, 0), b))
        finally:
            lg.setLevel(old)
            lg.removeHandler(h)
    return None if out[0] == out[1] and out[0][1] else f"ERROR level -> {out[0]}, DEBUG level -> {out[1]} (second field: early_stop_idx is None or 0)"


def F27_purged_map():
    """C17: after InMemMap.purge() / del_node() the neighbour lists still name the removed node; all_edges() and nodes_nbrto() skip
    such entries, edges_closeto() raised KeyError -> match() on a purged map raised."""
    from leuvenmapmatching.map.inmem import InMemMap
    from leuvenmapmatching.matcher.simple import SimpleMatcher
    m = InMemMap('x', use_latlon=False, use_rtree=False)
    for k, p in (('A', (0.5, 1.5)), ('B', (4, 0.5)), ('C', (4, 3))):
        m.add_node(k, p)
    m.add_edge('A', 'B'); m.add_edge('B', 'A'); m.add_edge('B', 'C')
    m.purge()           # removes C (no outgoing road); B still lists it
    try:
        r = SimpleMatcher(m, obs_noise=0.5, max_dist=3, non_emitting_states=False).match([(3.25, 0.75), (3.75, 0.5), (3.75, 0.75)])
    except Exception as e:
        return f"match() on the purged map raised {e!r}"
    return None if r[1] == 2 else f"match() on the purged map returned {r}"


def F28_lines_parallel_axis():
    """C16: lines_parallel gave a line without extent in the first coordinate the angle 0 (that of a line ALONG the first axis):
    a road exactly along the second axis was not parallel to a road 0.0006 degrees off it, the same pair with swapped axes
    was; two perpendicular axis-aligned roads counted as parallel.  connect_parallelroads links roads by this criterion."""
    from leuvenmapmatching.util import dist_euclidean as de
    a, b = ((0, 0), (0, 10)), ((0.2, 0), (0.2001, 10))
    sw = lambda p: (p[1], p[0])
    r1 = de.lines_parallel(a[0], a[1], b[0], b[1], d=0.5)
    r2 = de.lines_parallel(sw(a[0]), sw(a[1]), sw(b[0]), sw(b[1]), d=0.5)
    r3 = de.lines_parallel((0, 0), (0, 10), (-1, 5), (1, 5), d=0.5)
    return None if (r1, r2, r3) == (True, True, False) else f"nearly parallel pair: {r1}, with swapped axes: {r2} (expected True, True); perpendicular axis-aligned pair: {r3} (expected False)"


ALL = [F28_lines_parallel_axis, F27_purged_map, F26_stale_early_stop_on_a_reused_matcher, F21_antimeridian_box, F20_debug_placeholder_order_in_ne_layer, F15_latlon_triples_node_mode, F1_hashseed, F2_long_edge, F3_latlon_box, F6c_latlon_inf, F4_sqlite_bb, F5a_parallel, F6a_obs_on_road,
       F6b_triples_planar_ne, F7_sqlite_reopen_flag, F8_debug_changes_result, F12_sqlite_float32]

if __name__ == '__main__':
    import leuvenmapmatching
    print("package:", leuvenmapmatching.__file__)
    logging.getLogger("be.kuleuven.cs.dtai.mapmatching").setLevel(logging.ERROR)
    rc = 0
    import io, contextlib
    for f in ALL:
        if len(sys.argv) > 1 and not any(a in f.__name__ for a in sys.argv[1:]):
            continue
        buf = io.StringIO()
        with contextlib.redirect_stdout(buf):
            try:
                r = f()
            except Exception as e:
                r = f"demo raised {e!r}"
        print(('FAILS ' if r else 'ok    ') + f.__name__ + (': ' + r if r else ''))
        rc |= bool(r)
    sys.exit(rc)
