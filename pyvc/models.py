"""Models of builtins and dependencies (assumed contracts; listed in every evidence file)."""
import z3
from fractions import Fraction
from .values import *
from .interp import truth, zand, zor, znot, eq, cmp_num, INF

ASSUMED = [
    "A1: machine floats are treated as mathematical reals (no rounding, overflow, NaN)",
    "math.sqrt(x): requires x >= 0; result r with r >= 0 and r*r == x",
    "math.ceil / int(): integer k with k-1 < x <= k (ceil), truncation for int()",
    "np.isclose / np.allclose(a, b, rtol=0): |a-b| <= 1e-8 elementwise (numpy's documented default atol)",
    "abs/min/max: mathematical; sorted/list.sort: stable permutation ordered by key",
    "logging / print / time.time calls are dropped as effect-free; logger.isEnabledFor(DEBUG) is the symbolic boolean `debug`",
    "__debug__ is True (interpreter not run with -O)",
]

ATOL = Fraction(1, 10 ** 8)


def zabs(x):
    if z3.is_expr(x):
        return z3.If(x >= 0, x, -x)
    return abs(x)


def m_abs(it, x):
    if isinstance(x, float):
        return abs(x)
    return zabs(x)


def _minmax(it, args, is_min):
    if len(args) == 1:
        a0 = args[0]
        c = a0 if isinstance(a0, list) or (isinstance(a0, tuple) and not (a0 and isinstance(a0[0], str))) else it.concrete_iter(a0)
        if c is None:
            # extremum of a symbolic iterable: an unconstrained value (sound over-approximation: every behaviour of the real
            # extremum is a behaviour of the havoc'ed one); an empty iterable raises ValueError in Python, not modelled: noted
            it.ctx.notes.append('extremum-of-symbolic-iterable-havoced')
            return it.ctx.fresh('max' if not is_min else 'min')
        args = list(c)
    cur = args[0]
    for b in args[1:]:
        if isinstance(cur, float) or isinstance(b, float):       # infinities
            c = cmp_num('Lt', b, cur) if is_min else cmp_num('Gt', b, cur)
            if isinstance(c, bool):
                cur = b if c else cur
                continue
            raise Unsupported("min/max with infinity and symbolic")
        if z3.is_expr(cur) or z3.is_expr(b):
            zc, zb = to_z3(cur), to_z3(b)
            cond = (zb < zc) if is_min else (zb > zc)
            if getattr(it, 'split_minmax', False):
                # path split instead of an ite-term: keeps every query a conjunction of polynomial constraints
                cur = zb if it.ctx.branch(cond, 'min' if is_min else 'max') else zc
            else:
                cur = z3.If(cond, zb, zc)
        else:
            cur = (b if b < cur else cur) if is_min else (b if b > cur else cur)
    return cur


def m_min(it, *a, **kw):
    return _minmax(it, a, True)


def m_max(it, *a, **kw):
    return _minmax(it, a, False)


def m_sqrt(it, x):
    if not z3.is_expr(x):
        x = num(x)
        if x < 0:
            raise PyRaise('ValueError', 'math domain error')
        # exact rational square root if it exists, otherwise symbolic
        import math
        f = Fraction(x)
        rn, rd = math.isqrt(f.numerator), math.isqrt(f.denominator)
        if rn * rn == f.numerator and rd * rd == f.denominator:
            return Fraction(rn, rd)
        x = to_z3(f)
    it.ctx.oblige("domain:sqrt-arg-nonneg", x >= 0, kind='domain')
    r = it.ctx.fresh('sqrt')
    it.ctx.assume(x >= 0, r >= 0, r * r == x)       # assert-then-assume
    return r


def m_exp(it, x):
    """math.exp over the reals WITH the one float effect that matters for control flow: the result underflows to 0.0 for
    arguments below about -745 (so exp(x) > 0 is not a tautology)."""
    if not z3.is_expr(x):
        import math
        return Fraction(1) if num(x) == 0 else to_z3(Fraction(repr(math.exp(float(num(x))))))
    r = it.ctx.fresh('exp')
    it.ctx.assume(r >= 0, z3.Implies(x >= -700, r > 0), z3.Implies(x >= 0, r >= 1), z3.Implies(x <= 0, r <= 1))
    return r


def m_ceil(it, x):
    if not z3.is_expr(x):
        import math
        return math.ceil(x)
    k = it.ctx.fresh('ceil', 'I')
    it.ctx.assume(z3.ToReal(k) - 1 < x, x <= z3.ToReal(k))
    return k


def m_int(it, x):
    if not z3.is_expr(x):
        return int(x)
    if z3.is_int(x):
        return x
    k = it.ctx.fresh('trunc', 'I')
    it.ctx.assume(z3.If(x >= 0, z3.And(z3.ToReal(k) <= x, x < z3.ToReal(k) + 1),
                        z3.And(z3.ToReal(k) >= x, x > z3.ToReal(k) - 1)))
    return k


def m_float(it, x):
    if isinstance(x, str):
        return {'inf': INF, '-inf': -INF}.get(x, None) or Fraction(x)
    if z3.is_expr(x) and z3.is_int(x):
        return z3.ToReal(x)
    return x


def m_len(it, x):
    if isinstance(x, (list, tuple, dict, str)):
        return len(x)
    if isinstance(x, SetVal):
        return len(x.elems)
    if isinstance(x, SymColl) and x.length is not None:
        return x.length
    if isinstance(x, Obj) and ('len', x.cls) in it.hooks:
        return it.hooks[('len', x.cls)](it, x)
    if isinstance(x, Obj) and x.cls in it.prog.classes:
        r = it.prog.find_member(x.cls, '__len__')
        if r:
            return it.call_fn(FuncVal(r[0], it.prog.classes[r[1]][1], r[1]), [x], {})
    if ('len', type(x).__name__) in it.hooks:
        return it.hooks[('len', type(x).__name__)](it, x)
    if isinstance(x, tuple) and x and isinstance(x[0], str) and ('len', x[0]) in it.hooks:
        return it.hooks[('len', x[0])](it, x)
    raise Unsupported(f"len of {type(x).__name__}")


def m_tuple(it, x=()):
    if isinstance(x, (list, tuple)):
        return tuple(x)
    raise Unsupported("tuple() of symbolic iterable")


def m_list(it, x=()):
    if isinstance(x, (list, tuple)):
        return list(x)
    c = it.concrete_iter(x)
    if c is not None:
        return c
    if ('list', type(x).__name__) in it.hooks:
        return it.hooks[('list', type(x).__name__)](it, x)
    raise Unsupported("list() of symbolic iterable")


def m_set(it, x=()):
    c = it.concrete_iter(x) if not isinstance(x, (list, tuple)) or True else list(x)
    if c is None:
        if ('set',) in it.hooks:
            return it.hooks[('set',)](it, x)
        raise Unsupported("set() of symbolic iterable")
    out = SetVal()
    for v in c:
        if not any(v is y for y in out.elems):
            out.elems.append(v)
    return out


def m_dict(it, x=None, **kw):
    if x is None:
        return dict(kw)
    if isinstance(x, dict):
        return dict(x)
    c = it.concrete_iter(x)
    if c is not None:
        return {k: v for k, v in c}
    if ('dict',) in it.hooks:
        return it.hooks[('dict',)](it, x)
    raise Unsupported("dict() of symbolic iterable")


def m_range(it, *a):
    if len(a) == 1:
        return ('range', 0, a[0])
    if len(a) == 2:
        return ('range', a[0], a[1])
    raise Unsupported("range with step")


def m_zip(it, *a):
    return ('zip', list(a))


def m_reversed(it, x):
    if isinstance(x, (list, tuple)):
        return list(reversed(x))
    c = it.concrete_iter(x)
    if c is not None:
        return list(reversed(c))
    if ('reversed', type(x).__name__) in it.hooks:
        return it.hooks[('reversed', type(x).__name__)](it, x)
    raise Unsupported("reversed of symbolic")


def m_isclose(it, a, b, rtol=None, atol=None, **kw):
    rt = Fraction(1, 10 ** 5) if rtol is None else rtol
    at = ATOL if atol is None else atol
    if rt != 0:
        d = zabs(to_z3(a) - to_z3(b))
        return d <= to_z3(at) + to_z3(rt) * zabs(to_z3(b))
    if not (z3.is_expr(a) or z3.is_expr(b)):
        return abs(Fraction(a) - Fraction(b)) <= at
    za, zb, zt = to_z3(a), to_z3(b), to_z3(at)
    if getattr(it, 'split_minmax', False):
        # path split: both half-tests become separate atoms of the path condition
        if not it.ctx.branch(za - zb <= zt, 'isclose-hi'):
            return False
        return it.ctx.branch(zb - za <= zt, 'isclose-lo')
    return z3.And(za - zb <= zt, zb - za <= zt)          # |a-b| <= atol without an ite-term


def m_allclose(it, a, b, rtol=None, atol=None, **kw):
    if len(a) != len(b):
        raise Unsupported("allclose broadcast")
    return zand(*[m_isclose(it, x, y, rtol=rtol, atol=atol) for x, y in zip(a, b)])


def m_isinstance(it, x, c):
    if isinstance(x, Obj) and isinstance(c, ClassVal):
        return c.name in (it.prog.mro(x.cls) if x.cls in it.prog.classes else [x.cls])
    if isinstance(c, Model):
        if c.name == 'tuple':
            return isinstance(x, tuple)
        if c.name == 'int':
            return (isinstance(x, int) and not isinstance(x, bool)) or (z3.is_expr(x) and z3.is_int(x))
        if c.name == 'str':
            return isinstance(x, (str, FStr))
    if isinstance(c, ClassVal):
        return False
    raise Unsupported("isinstance")


def m_type(it, x):
    if isinstance(x, tuple):
        return BUILTINS['tuple']
    if isinstance(x, (str, FStr)):
        return BUILTINS['str']
    if isinstance(x, bool):
        return Model('bool', None)
    if isinstance(x, int) or (z3.is_expr(x) and z3.is_int(x)):
        return BUILTINS['int']
    if isinstance(x, Obj):
        return ClassVal(x.cls)
    if z3.is_expr(x) and x.sort() == Label:
        return Model('labeltype', None)     # neither tuple nor int nor str as far as the code may assume
    if isinstance(x, list):
        return BUILTINS['list']
    raise Unsupported(f"type() of {x!r}")


def m_log(it, x):
    import math
    if not z3.is_expr(x):
        if x <= 0:
            raise PyRaise('ValueError', 'math domain error')
        if x == 1:
            return 0
        # rational enclosure of the constant
        v = math.log(x)
        r = it.ctx.fresh('logc')
        lo, hi = Fraction(repr(v)) - Fraction(1, 10 ** 12), Fraction(repr(v)) + Fraction(1, 10 ** 12)
        it.ctx.assume(r > to_z3(lo), r < to_z3(hi))
        return r
    it.ctx.oblige("domain:log-arg-positive", x > 0, kind='domain')
    r = it.ctx.fresh('log')
    it.ctx.assume(z3.Implies(x == 1, r == 0), z3.Implies(x < 1, r < 0), z3.Implies(x > 1, r > 0))
    return r


def _truths(it, x, what):
    c = x if isinstance(x, (list, tuple)) and not (isinstance(x, tuple) and x and isinstance(x[0], str)) else it.concrete_iter(x)
    if c is None:
        raise Unsupported(f"{what}() of a symbolic iterable")
    from .interp import truth
    out = []
    for v in c:
        t = truth(it.ctx, v)
        out.append(z3.BoolVal(t) if isinstance(t, bool) else t)
    return out


def m_any(it, x):
    ts = _truths(it, x, 'any')
    if not ts:
        return False
    r = z3.simplify(z3.Or(*ts))
    return True if z3.is_true(r) else (False if z3.is_false(r) else r)


def m_all(it, x):
    ts = _truths(it, x, 'all')
    if not ts:
        return True
    r = z3.simplify(z3.And(*ts))
    return True if z3.is_true(r) else (False if z3.is_false(r) else r)


def m_sum(it, x, start=0):
    c = x if isinstance(x, (list, tuple)) and not (isinstance(x, tuple) and x and isinstance(x[0], str)) else it.concrete_iter(x)
    if c is None:
        # sum over a symbolic iterable: an unconstrained value (sound over-approximation, like the extremum)
        it.ctx.notes.append('sum-of-symbolic-iterable-havoced')
        return it.ctx.fresh('sum')
    acc = start
    for v in c:
        acc = acc + v
    return acc


def m_chain(it, *parts):
    """itertools.chain: the concatenation when every part is concrete, else a tagged value iterated part by part"""
    conc = [p if isinstance(p, list) or (isinstance(p, tuple) and not (p and isinstance(p[0], str))) else it.concrete_iter(p) for p in parts]
    if all(c is not None for c in conc):
        return [x for c in conc for x in c]
    return ('chain', list(parts))


BUILTINS = {}
for _n, _f in [('sum', m_sum), ('any', m_any), ('all', m_all), ('abs', m_abs), ('min', m_min), ('max', m_max), ('len', m_len), ('tuple', m_tuple), ('list', m_list),
               ('set', m_set), ('dict', m_dict), ('range', m_range), ('zip', m_zip), ('int', m_int),
               ('float', m_float), ('isinstance', m_isinstance), ('type', m_type), ('reversed', m_reversed)]:
    BUILTINS[_n] = Model(_n, _f)
BUILTINS['str'] = Model('str', lambda it, x='': x if isinstance(x, (str, FStr)) else FStr([x]))
BUILTINS['math'] = ModVal('math')
BUILTINS['np'] = ModVal('np')
BUILTINS['logging'] = ModVal('logging')
BUILTINS['itertools'] = ModVal('itertools')
BUILTINS[('itertools', 'chain')] = Model('itertools.chain', m_chain)
BUILTINS[('math', 'sqrt')] = Model('math.sqrt', m_sqrt)
BUILTINS[('math', 'ceil')] = Model('math.ceil', m_ceil)
BUILTINS[('math', 'log')] = Model('math.log', m_log)
BUILTINS[('math', 'exp')] = Model('math.exp', m_exp)
BUILTINS[('math', 'fabs')] = Model('math.fabs', m_abs)
BUILTINS[('np', 'isclose')] = Model('np.isclose', m_isclose)
BUILTINS[('np', 'allclose')] = Model('np.allclose', m_allclose)
BUILTINS[('np', 'inf')] = INF
BUILTINS[('logging', 'DEBUG')] = 10
BUILTINS['sqrt'] = BUILTINS[('math', 'sqrt')]
BUILTINS['ceil'] = BUILTINS[('math', 'ceil')]
BUILTINS['fabs'] = BUILTINS[('math', 'fabs')]
BUILTINS['None'] = None
BUILTINS['True'] = True
BUILTINS['False'] = False


def std_models(extra=None):
    m = dict(BUILTINS)
    if extra:
        m.update(extra)
    return m
