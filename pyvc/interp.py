"""pyvc: forward symbolic execution of real Python source (ast) with cut-point loops and call contracts.

One execution = one path.  Branches on symbolic conditions consult a decision vector; unexplored
alternatives are queued (re-execution).  Loops over symbolic collections / with symbolic bounds are
cut points: one alternative executes an arbitrary iteration (from a havoced state that satisfies the
invariant) and ends the path at the end of the body; the other continues after the loop.
"""
import ast
import z3
from fractions import Fraction
from .values import *

INF = float('inf')
DELETED = object()
TAGS = ('chain', 'view', 'zip', 'gen', 'objdict', 'lambda', 'builtin_method', 'slice', 'range', 'sdview', 'pymodule', 'closure', 'namedtuple')


class EndPath(Exception):
    """The path stops here on purpose (end of an arbitrary loop iteration)."""
    def __init__(self, why):
        self.why = why


class _Ret(Exception):
    def __init__(self, v):
        self.v = v


class _Break(Exception):
    pass


class _Continue(Exception):
    pass


class Obligation:
    __slots__ = ('name', 'hyps', 'goal', 'kind', 'where', 'path_id', 'extra')

    def __init__(self, name, hyps, goal, kind='post', where='', extra=None):
        self.name, self.hyps, self.goal, self.kind, self.where = name, list(hyps), goal, kind, where
        self.path_id = None
        self.extra = extra or {}


class Event:
    def __init__(self, kind, **kw):
        self.kind = kind
        self.__dict__.update(kw)

    def __repr__(self):
        return f"Ev({self.kind}, {', '.join(f'{k}={v!r}' for k, v in self.__dict__.items() if k != 'kind')})"


class Ctx:
    """State of one path."""

    def __init__(self, dec=None, feas_timeout=1500, prune=True):
        self.dec = list(dec or [])
        self.i = 0
        self.new = []                 # alternative decision vectors discovered on this path
        self.pc = []                  # path condition + assumptions (z3 Bool list)
        self.obl = []                 # obligations generated on this path
        self.events = []
        self.n = 0
        self.loop_stack = []          # ids of cut-point iterations we are inside
        self.feas_timeout = feas_timeout
        self.prune = prune
        self.trace = []               # human-readable branch trace
        self.notes = []

    # -- symbols
    def fresh(self, nm, sort='R'):
        self.n += 1
        name = f"{nm}!{self.n}"
        if not isinstance(sort, str):
            return z3.Const(name, sort)
        if sort == 'R':
            return z3.Real(name)
        if sort == 'I':
            return z3.Int(name)
        if sort == 'B':
            return z3.Bool(name)
        if sort == 'L':
            return z3.Const(name, Label)
        return z3.Const(name, sort)

    def assume(self, *fs):
        for f in fs:
            if isinstance(f, bool):
                if not f:
                    self.pc.append(z3.BoolVal(False))
                continue
            self.pc.append(f)

    def oblige(self, name, goal, kind='post', where='', extra=None):
        if isinstance(goal, bool):
            goal = z3.BoolVal(goal)
        self.obl.append(Obligation(name, self.pc, goal, kind, where, extra))

    # -- decisions
    def _feasible(self, c):
        if not self.prune:
            return True
        s = z3.Solver()
        s.set('timeout', self.feas_timeout)
        s.add(*self.pc)
        s.add(c)
        return s.check() != z3.unsat

    def choice(self, n, label=''):
        """n-ary decision (no feasibility filter)."""
        if self.i < len(self.dec):
            v = self.dec[self.i]
        else:
            v = 0
            self.dec.append(0)
            for k in range(1, n):
                self.new.append(self.dec[:self.i] + [k])
        self.i += 1
        self.trace.append(f"{label}={v}")
        return v

    def branch(self, c, label=''):
        """Decide a condition.  Returns a python bool; extends the path condition."""
        if isinstance(c, bool):
            return c
        c = z3.simplify(c)
        if z3.is_true(c):
            return True
        if z3.is_false(c):
            return False
        if self.i < len(self.dec):
            v = bool(self.dec[self.i])
        else:
            t_ok = self._feasible(c)
            f_ok = self._feasible(z3.Not(c))
            if t_ok and f_ok:
                v = True
                self.dec.append(1)
                self.new.append(self.dec[:self.i] + [0])
            elif t_ok or not f_ok:
                # (both infeasible: the path itself is infeasible; keep going on the true side, all
                #  obligations on it are vacuous)
                v = True
                self.dec.append(1)
            else:
                v = False
                self.dec.append(0)
        self.i += 1
        self.pc.append(c if v else z3.Not(c))
        self.trace.append(f"{label}:{'T' if v else 'F'}")
        return v


# ----------------------------------------------------------------------------------------------------
def truth(ctx, v):
    """Python truthiness of a value as python bool or z3 Bool."""
    if isinstance(v, bool):
        return v
    if v is None:
        return False
    if z3.is_expr(v):
        if z3.is_bool(v):
            return v
        if z3.is_arith(v):
            return v != 0
        if v.sort() == Label:
            raise Unsupported("label genericity: truth value of a node label is used (labels are only compared for equality)")
        raise Unsupported(f"truth of {v.sort()}")
    if isinstance(v, (int, Fraction, float)):
        return v != 0
    if isinstance(v, (str, tuple, list, dict)):
        return len(v) > 0
    if isinstance(v, SetVal):
        return len(v.elems) > 0
    if isinstance(v, (Obj, FuncVal, Bound, ClassVal, Model, FStr)):
        return True
    if isinstance(v, Accum):
        raise Unsupported("truthiness of accumulator")
    if isinstance(v, SymDict) and not v.overlay:
        # a symbolic map of unknown size: empty or not is one unknown Boolean per map (both branches are explored)
        if not hasattr(v, 'nonempty'):
            v.nonempty = ctx.fresh(f"nonempty_{v.name.split('#')[0]}", 'B')
        return v.nonempty
    raise Unsupported(f"truth({v!r})")


def zbool(b):
    return z3.BoolVal(b) if isinstance(b, bool) else b


def zand(*xs):
    xs = [x for x in xs if not (isinstance(x, bool) and x)]
    if any(isinstance(x, bool) and not x for x in xs):
        return False
    if not xs:
        return True
    return z3.And(*xs) if len(xs) > 1 else xs[0]


def zor(*xs):
    xs = [x for x in xs if not (isinstance(x, bool) and not x)]
    if any(isinstance(x, bool) and x for x in xs):
        return True
    if not xs:
        return False
    return z3.Or(*xs) if len(xs) > 1 else xs[0]


def znot(x):
    return (not x) if isinstance(x, bool) else z3.Not(x)


def eq(a, b):
    """Structural / semantic equality -> python bool or z3 Bool."""
    if a is b:
        return True
    if a is None or b is None:
        return False        # (z3 exprs are never None; optional values are case-split by the harness)
    if isinstance(a, bool) and isinstance(b, bool):
        return a == b
    if z3.is_expr(a) or z3.is_expr(b):
        if isinstance(a, (tuple, list, FStr, Obj, str)) or isinstance(b, (tuple, list, FStr, Obj, str)):
            return False    # a label / number never equals a tuple, rendered string or object (A2)
        za, zb = to_z3(a), to_z3(b)
        if za.sort() != zb.sort():
            if z3.is_arith(za) and z3.is_arith(zb):
                return za == zb
            return False
        return za == zb
    if is_num(a) and is_num(b):
        return num(a) == num(b)
    if isinstance(a, (tuple, list)) and isinstance(b, (tuple, list)):
        if type(a) is not type(b) or len(a) != len(b):
            return False
        return zand(*[eq(x, y) for x, y in zip(a, b)])
    if isinstance(a, FStr) and isinstance(b, FStr):
        if len(a.parts) != len(b.parts):
            return False
        return zand(*[eq(x, y) for x, y in zip(a.parts, b.parts)])
    if isinstance(a, FStr) or isinstance(b, FStr):
        return False
    if isinstance(a, Obj) or isinstance(b, Obj):
        return a is b
    try:
        return a == b
    except Exception:
        return False


def cmp_num(op, a, b):
    """Ordered comparison with +-inf support."""
    for x in (a, b):
        if not (z3.is_expr(x) or is_num(x) or isinstance(x, bool)):
            raise Unsupported(f"ordered comparison on {type(x).__name__} ({x!r})")
        if z3.is_expr(x) and not (z3.is_arith(x)):
            raise Unsupported(f"ordered comparison on sort {x.sort()} (label genericity)")
    sym = z3.is_expr(a) or z3.is_expr(b)
    if not sym:
        a, b = num(a), num(b)
        return {'Lt': a < b, 'LtE': a <= b, 'Gt': a > b, 'GtE': a >= b}[op]
    # one side may be a concrete infinity
    for x, other, flip in ((a, b, False), (b, a, True)):
        if isinstance(x, float) and x in (INF, -INF):
            o = {'Lt': 'Gt', 'Gt': 'Lt', 'LtE': 'GtE', 'GtE': 'LtE'}[op] if flip else op
            # x (o) other, other finite
            if x == INF:
                return o in ('Gt', 'GtE')
            return o in ('Lt', 'LtE')
    za, zb = to_z3(a), to_z3(b)
    return {'Lt': za < zb, 'LtE': za <= zb, 'Gt': za > zb, 'GtE': za >= zb}[op]


class Program:
    """Loaded source: modules -> ast, classes, functions.  Re-read from the working tree on every run."""

    def __init__(self, root=None):
        import os
        root = root or os.environ.get('VERIF_REPO', '/repo')
        self.root = root
        self.modules = {}      # modname -> ast.Module
        self.src = {}          # modname -> source text
        self.classes = {}      # classname -> (ClassDef, modname)
        self.funcs = {}        # modname -> {name: FunctionDef}

    def load(self, modname):
        if modname in self.modules:
            return self.modules[modname]
        import os
        base = os.path.join(self.root, *modname.split('.'))
        path = base + '.py' if os.path.exists(base + '.py') else os.path.join(base, '__init__.py')
        text = open(path).read()
        tree = ast.parse(text)
        self.modules[modname] = tree
        self.src[modname] = (path, text)
        self.funcs[modname] = {}
        self.imports = getattr(self, 'imports', {})
        self.imports[modname] = {}
        pkg = modname.split('.')
        for n in ast.walk(tree):
            if isinstance(n, ast.ImportFrom) and n.module is not None or isinstance(n, ast.ImportFrom):
                base = pkg[:len(pkg) - n.level] if n.level else []
                src = '.'.join(base + (n.module.split('.') if n.module else []))
                for a in n.names:
                    self.imports[modname][a.asname or a.name] = (src, a.name)
        for n in tree.body:
            if isinstance(n, ast.ClassDef):
                self.classes[n.name] = (n, modname)
            elif isinstance(n, ast.FunctionDef):
                self.funcs[modname][n.name] = n
        return tree

    def bases(self, cname):
        node, _ = self.classes[cname]
        out = []
        for b in node.bases:
            if isinstance(b, ast.Name) and b.id in self.classes:
                out.append(b.id)
        return out

    def mro(self, cname):
        out = [cname]
        for b in self.bases(cname):
            for c in self.mro(b):
                if c not in out:
                    out.append(c)
        return out

    def find_member(self, cname, name, kinds=('method', 'getter', 'setter'), after=None):
        """Look up a function member through the MRO. Returns (FunctionDef, owner class, kind) or None."""
        mro = self.mro(cname)
        if after is not None:
            mro = mro[mro.index(after) + 1:]
        for c in mro:
            node, mod = self.classes[c]
            for n in node.body:
                if isinstance(n, ast.FunctionDef) and n.name == name:
                    k = 'method'
                    for d in n.decorator_list:
                        if isinstance(d, ast.Name) and d.id == 'property':
                            k = 'getter'
                        elif isinstance(d, ast.Attribute) and d.attr == 'setter':
                            k = 'setter'
                        elif isinstance(d, ast.Name) and d.id == 'classmethod':
                            k = 'classmethod'
                        elif isinstance(d, ast.Name) and d.id == 'staticmethod':
                            k = 'staticmethod'
                    if k in kinds or (k in ('classmethod', 'staticmethod') and 'method' in kinds):
                        return n, c, k
        return None

    def func(self, modname, qual):
        self.load(modname)
        if '.' in qual:
            c, f = qual.split('.')
            for kind in (('method',), ('getter',), ('setter',)):
                r = self.find_member(c, f, kinds=kind)
                if r and r[1] == c:
                    return FuncVal(r[0], self.classes[c][1], c)
            raise KeyError(qual)
        return FuncVal(self.funcs[modname][qual], modname)

    def span(self, fv):
        import hashlib
        path, text = self.src[fv.module]
        seg = ast.get_source_segment(text, fv.node) or ''
        return {'function': f"{fv.module}.{fv.qual}", 'file': path, 'lines': [fv.node.lineno, fv.node.end_lineno],
                'sha1': hashlib.sha1(seg.encode()).hexdigest()[:12]}


DROPPED_CALLS = ('logger.debug', 'logger.info', 'logger.warning', 'logger.error', 'print', 'time.time')


class Interp:
    def __init__(self, ctx, prog, models=None, contracts=None, debug=None, loops=None, hooks=None):
        self.ctx = ctx
        self.prog = prog
        self.models = models or {}       # name -> value for global lookup / (module, attr)
        self.contracts = contracts or {}  # qualname -> callable(interp, fv, args, kw) -> result
        self.debug = debug if debug is not None else z3.Bool('debug')
        self.loops = loops or {}         # (func qual, loop ordinal) -> LoopSpec
        self.hooks = hooks or {}
        self.frames = []
        self.loop_counter = {}
        self.yield_handlers = []

    # ---------------------------------------------------------------- expressions
    def ev(self, e, env):
        m = getattr(self, 'e_' + type(e).__name__, None)
        if m is None:
            raise Unsupported(f"expression {type(e).__name__} at line {getattr(e, 'lineno', '?')}")
        return m(e, env)

    def e_Constant(self, e, env):
        return num(e.value)

    def e_Name(self, e, env):
        if e.id in env:
            return env[e.id]
        if e.id == '__debug__':
            return True
        g = env.get('$globals')
        if g is not None and e.id in g:
            return g[e.id]
        if e.id in self.models:
            return self.models[e.id]
        mod = env.get('$module')
        if mod and e.id in self.prog.funcs.get(mod, {}):
            return FuncVal(self.prog.funcs[mod][e.id], mod)
        if e.id in self.prog.classes:
            return ClassVal(e.id)
        imp = self.prog.imports.get(mod, {}).get(e.id) if mod else None
        if imp and imp[0].startswith('leuvenmapmatching'):
            try:
                self.prog.load(imp[0])
                if imp[1] in self.prog.funcs.get(imp[0], {}):
                    return FuncVal(self.prog.funcs[imp[0]][imp[1]], imp[0])
                if imp[1] in self.prog.classes:
                    return ClassVal(imp[1])
                # `from ..util import dist_latlon as dist_lib`: a sub-module
                sub = imp[0] + '.' + imp[1]
                self.prog.load(sub)
                return ('pymodule', sub)
            except (OSError, KeyError):
                pass
        raise Unsupported(f"unknown name {e.id!r} at line {e.lineno}")

    def e_JoinedStr(self, e, env):
        parts = []
        for v in e.values:
            if isinstance(v, ast.Constant):
                parts.append(v.value)
            else:
                try:
                    parts.append(self.ev(v.value, env))
                except (Unsupported, PyRaise):
                    parts.append('<?>')
        return FStr(parts)

    def e_Tuple(self, e, env):
        return tuple(self.ev(x, env) for x in e.elts)

    def e_List(self, e, env):
        return [self.ev(x, env) for x in e.elts]

    def e_Set(self, e, env):
        return SetVal([self.ev(x, env) for x in e.elts])

    def e_Dict(self, e, env):
        return {self.ev(k, env): self.ev(v, env) for k, v in zip(e.keys, e.values)}

    def e_Lambda(self, e, env):
        return ('lambda', e, env)

    def getattr(self, o, attr):
        if ('getattr', type(o).__name__) in self.hooks:
            return self.hooks[('getattr', type(o).__name__)](self, o, attr)
        if isinstance(o, Obj):
            if attr == '__class__':
                return ClassVal(o.cls)
            if attr == '__dict__':
                return ('objdict', o)
            if o.cls in self.prog.classes:
                r = self.prog.find_member(o.cls, attr, kinds=('getter',))
                if r:
                    return self.call_fn(FuncVal(r[0], self.prog.classes[r[1]][1], r[1]), [o], {})
            if attr in o.f:
                return o.f[attr]
            key = ('meth', o.cls, attr)
            for c in (self.prog.mro(o.cls) if o.cls in self.prog.classes else [o.cls]):
                if ('meth', c, attr) in self.models:
                    return Bound(self.models[('meth', c, attr)], o)
            if o.cls in self.prog.classes:
                r = self.prog.find_member(o.cls, attr, kinds=('method',))
                if r:
                    fv = FuncVal(r[0], self.prog.classes[r[1]][1], r[1])
                    if r[2] == 'staticmethod':
                        return fv
                    if r[2] == 'classmethod':
                        return Bound(fv, ClassVal(o.cls))
                    return Bound(fv, o)
            raise PyRaise('AttributeError', f"{o.cls}.{attr}")
        if isinstance(o, ClassVal):
            if ('cls', o.name, attr) in self.models:
                return self.models[('cls', o.name, attr)]
            r = self.prog.find_member(o.name, attr, kinds=('method',)) if o.name in self.prog.classes else None
            if r:
                fv = FuncVal(r[0], self.prog.classes[r[1]][1], r[1])
                if r[2] == 'classmethod':
                    return Bound(fv, o)
                return fv
            raise Unsupported(f"class attribute {o.name}.{attr}")
        if isinstance(o, ModVal):
            if (o.name, attr) in self.models:
                return self.models[(o.name, attr)]
            raise Unsupported(f"module attribute {o.name}.{attr}")
        if isinstance(o, SuperVal):
            r = self.prog.find_member(o.self_obj.cls, attr, kinds=('method',), after=o.cls)
            if r:
                return Bound(FuncVal(r[0], self.prog.classes[r[1]][1], r[1]), o.self_obj)
            raise Unsupported(f"super().{attr}")
        if isinstance(o, tuple) and o and isinstance(o[0], str) and o[0] == 'pymodule':
            if attr in self.prog.funcs.get(o[1], {}):
                return FuncVal(self.prog.funcs[o[1]][attr], o[1])
            raise PyRaise('AttributeError', f"module {o[1]} has no attribute {attr}")
        if isinstance(o, (list, dict, SetVal, SymDict, Accum, SymColl, tuple, HavocColl)):
            return ('builtin_method', o, attr)
        if isinstance(o, tuple) and o and o[0] == 'namedtuple':
            return o[1][attr]
        if isinstance(o, tuple) and o and o[0] == 'pymodule':
            if attr in self.prog.funcs.get(o[1], {}):
                return FuncVal(self.prog.funcs[o[1]][attr], o[1])
            raise PyRaise('AttributeError', f"module {o[1]} has no attribute {attr}")
        raise Unsupported(f"attribute {attr!r} of {type(o).__name__}")

    def e_Attribute(self, e, env):
        return self.getattr(self.ev(e.value, env), e.attr)

    def e_UnaryOp(self, e, env):
        v = self.ev(e.operand, env)
        if isinstance(e.op, ast.Not):
            return znot(truth(self.ctx, v))
        if isinstance(e.op, ast.USub):
            if isinstance(v, float):
                return -v
            return -to_z3(v) if z3.is_expr(v) else -v
        if isinstance(e.op, ast.UAdd):
            return v
        raise Unsupported("unary op")

    def arith(self, op, a, b, node=None):
        if isinstance(a, (list,)) and isinstance(b, list) and op == 'Add':
            return a + b
        if isinstance(a, tuple) and isinstance(b, tuple) and op == 'Add':
            return a + b
        if op == 'Add' and (isinstance(a, SymColl) or isinstance(b, SymColl)) and isinstance(a, (SymColl, list)) and isinstance(b, (SymColl, list)):
            # list concatenation with a symbolic list: iterated part by part (an arbitrary element of the concatenation is an
            # arbitrary element of one of its parts); any other use of the value is unsupported
            return ('chain', [a, b])
        if isinstance(a, list) and op == 'Mult' and isinstance(b, int):
            return a * b
        if isinstance(a, bool):
            a = int(a)
        if isinstance(b, bool):
            b = int(b)
        sym = z3.is_expr(a) or z3.is_expr(b)
        for x in (a, b):
            if not (is_num(x) or (z3.is_expr(x) and (z3.is_arith(x) or z3.is_bool(x)))):
                raise Unsupported(f"arithmetic on {type(x).__name__} ({x!r}) at line {getattr(node, 'lineno', '?')}")
            if isinstance(x, float):      # +-inf
                raise Unsupported("arithmetic on infinity")
        if op == 'BitOr':
            return zor(truth(self.ctx, a), truth(self.ctx, b))
        if op == 'BitAnd':
            return zand(truth(self.ctx, a), truth(self.ctx, b))
        if op == 'Pow':
            if z3.is_expr(b):
                b = z3.simplify(b)
                b = b.as_long() if z3.is_int_value(b) else b
            if isinstance(b, Fraction) and b.denominator == 1:
                b = int(b)
            if isinstance(b, int) and 0 <= b <= 8:
                r = 1
                for _ in range(b):
                    r = self.arith('Mult', r, a, node)
                return r
            raise Unsupported(f"power with exponent {b!r}")
        if sym:
            a, b = to_z3(a), to_z3(b)
            if z3.is_bool(a):
                a = z3.If(a, 1, 0)
            if z3.is_bool(b):
                b = z3.If(b, 1, 0)
        if op == 'Add':
            return a + b
        if op == 'Sub':
            return a - b
        if op == 'Mult':
            return a * b
        if op == 'Div':
            where = f"line {getattr(node, 'lineno', '?')}"
            if sym:
                self.ctx.oblige(f"domain:div-nonzero@{where}", b != 0, kind='domain', where=where)
                if z3.is_int(a):
                    a = z3.ToReal(a)
                if z3.is_int(b):
                    b = z3.ToReal(b)
                bs = z3.simplify(b)
                if z3.is_rational_value(bs):
                    if bs.numerator_as_long() == 0:
                        raise PyRaise('ZeroDivisionError', where)
                    return a / b
                q = self.ctx.fresh('q')
                self.ctx.assume(b != 0, q * b == a)     # assert-then-assume: the domain obligation above covers b == 0
                return q
            if b == 0:
                raise PyRaise('ZeroDivisionError', where)
            return Fraction(a) / Fraction(b)
        if op == 'Mod' and not sym:
            return a % b
        if op == 'FloorDiv' and not sym:
            return a // b
        raise Unsupported(f"operator {op}")

    def e_BinOp(self, e, env):
        a = self.ev(e.left, env)
        b = self.ev(e.right, env)
        if isinstance(e.op, ast.BitOr) and isinstance(a, (SymColl, SetVal)) and isinstance(b, (SymColl, SetVal)):
            # set union: an arbitrary element of the union is an arbitrary element of one of the operands (order unknown)
            def elem(it_, a=a, b=b):
                src = a if it_.ctx.choice(2, 'union-side') == 0 else b
                if isinstance(src, SymColl):
                    return src.elem(it_)
                if not src.elems:
                    raise EndPath('empty operand of a set union')
                return src.elems[it_.ctx.choice(len(src.elems), 'union-elem') if len(src.elems) > 1 else 0], []
            return SymColl('union', elem, ordered=False)
        return self.arith(type(e.op).__name__, a, b, e)

    def e_BoolOp(self, e, env):
        isand = isinstance(e.op, ast.And)
        for x in e.values[:-1]:
            v = self.ev(x, env)
            t = self.ctx.branch(truth(self.ctx, v), f"boolop@{x.lineno}")
            if isand and not t:
                return v if not z3.is_expr(v) else False
            if not isand and t:
                return v if not z3.is_expr(v) else True
        return self.ev(e.values[-1], env)

    def contains(self, item, cont):
        if isinstance(cont, HavocColl):
            kk = self.sd_key(item)
            if kk not in cont.memo:
                cont.memo[kk] = self.ctx.fresh(f"in_{cont.name}", 'B')
            return cont.memo[kk]
        if isinstance(cont, SymDict):
            return self.sd_has(cont, item)
        if isinstance(cont, dict):
            return zor(*[eq(item, k) for k in cont.keys()])
        if isinstance(cont, (list, tuple)):
            return zor(*[eq(item, k) for k in cont])
        if isinstance(cont, SetVal):
            return zor(*[eq(item, k) for k in cont.elems])
        if isinstance(cont, Obj) and cont.cls in self.prog.classes:
            r = self.prog.find_member(cont.cls, '__contains__')
            if r:
                return truth(self.ctx, self.call_fn(FuncVal(r[0], self.prog.classes[r[1]][1], r[1]), [cont, item], {}))
        if ('contains', type(cont).__name__) in self.hooks:
            return self.hooks[('contains', type(cont).__name__)](self, item, cont)
        raise Unsupported(f"'in' on {type(cont).__name__}")

    def e_Compare(self, e, env):
        l = self.ev(e.left, env)
        res = []
        for op, c in zip(e.ops, e.comparators):
            r = self.ev(c, env)
            o = type(op).__name__
            if o in ('Is', 'IsNot'):
                if l is None or r is None:
                    v = (l is r)
                elif isinstance(l, bool) or isinstance(r, bool):
                    v = (l is r)
                elif z3.is_expr(l) or z3.is_expr(r):
                    raise Unsupported("'is' on symbolic values")
                else:
                    v = (l is r) or (isinstance(l, ClassVal) and isinstance(r, ClassVal) and l.name == r.name) \
                        or (isinstance(l, Model) and isinstance(r, Model) and l.name == r.name)
                res.append(v if o == 'Is' else not v)
            elif o == 'Eq':
                res.append(self.py_eq(l, r))
            elif o == 'NotEq':
                res.append(znot(self.py_eq(l, r)))
            elif o in ('In', 'NotIn'):
                v = self.contains(l, r)
                res.append(v if o == 'In' else znot(v))
            else:
                if isinstance(l, Obj) or isinstance(r, Obj):
                    raise Unsupported("ordered comparison of objects")
                res.append(cmp_num(o, l, r))
            l = r
        return zand(*res) if len(res) > 1 else res[0]

    def py_eq(self, l, r):
        if isinstance(l, Obj) and l.cls in self.prog.classes and l is not r:
            m = self.prog.find_member(l.cls, '__eq__')
            if m:
                return truth(self.ctx, self.call_fn(FuncVal(m[0], self.prog.classes[m[1]][1], m[1]), [l, r], {}))
        return eq(l, r)

    def e_IfExp(self, e, env):
        t = self.ctx.branch(truth(self.ctx, self.ev(e.test, env)), f"ifexp@{e.lineno}")
        return self.ev(e.body if t else e.orelse, env)

    def index(self, o, i, node=None):
        if isinstance(o, SymDict):
            return self.sd_get(o, i)
        if isinstance(o, dict):
            for k, v in o.items():
                c = eq(i, k)
                if self.ctx.branch(c, f"dictkey@{getattr(node, 'lineno', '?')}"):
                    return v
            raise PyRaise('KeyError', repr(i))
        if isinstance(o, (list, tuple)):
            if isinstance(i, slice) or (isinstance(i, tuple) and i and i[0] == 'slice'):
                lo, hi = i[1], i[2]
                return o[lo:hi]
            if z3.is_expr(i):
                i = z3.simplify(i)
                if z3.is_int_value(i):
                    i = i.as_long()
                else:
                    # case split over concrete positions
                    for k in range(len(o)):
                        if self.ctx.branch(i == k, f"idx@{getattr(node, 'lineno', '?')}"):
                            return o[k]
                    if self.ctx.branch(zand(i < 0, i >= -len(o)), "negidx"):
                        for k in range(1, len(o) + 1):
                            if self.ctx.branch(i == -k, "negidx"):
                                return o[-k]
                    raise PyRaise('IndexError', str(i))
            if isinstance(i, Fraction) and i.denominator == 1:
                i = int(i)
            if not isinstance(i, int):
                raise Unsupported(f"index {i!r}")
            if not -len(o) <= i < len(o):
                raise PyRaise('IndexError', str(i))
            return o[i]
        if isinstance(o, tuple) and o and o[0] == 'objdict':
            return o[1].f[i]
        if ('index', type(o).__name__) in self.hooks:
            return self.hooks[('index', type(o).__name__)](self, o, i)
        if isinstance(o, Obj) and ('index', o.cls) in self.hooks:
            return self.hooks[('index', o.cls)](self, o, i)
        raise Unsupported(f"subscript of {type(o).__name__}")

    def e_Subscript(self, e, env):
        o = self.ev(e.value, env)
        if isinstance(e.slice, ast.Slice):
            lo = self.ev(e.slice.lower, env) if e.slice.lower else None
            hi = self.ev(e.slice.upper, env) if e.slice.upper else None
            if e.slice.step is not None:
                raise Unsupported("slice step")
            return self.do_slice(o, lo, hi)
        return self.index(o, self.ev(e.slice, env), e)

    def do_slice(self, o, lo, hi):
        if isinstance(o, (list, tuple)):
            for x in (lo, hi):
                if x is not None and z3.is_expr(x):
                    raise Unsupported("symbolic slice bound on concrete list")
            lo = int(lo) if lo is not None else None
            hi = int(hi) if hi is not None else None
            return o[lo:hi]
        if ('slice', type(o).__name__) in self.hooks:
            return self.hooks[('slice', type(o).__name__)](self, o, lo, hi)
        raise Unsupported(f"slice of {type(o).__name__}")

    def e_ListComp(self, e, env):
        return self.comprehension(e, env, 'list')

    def e_GeneratorExp(self, e, env):
        return self.comprehension(e, env, 'gen')

    def e_SetComp(self, e, env):
        return self.comprehension(e, env, 'set')

    def comprehension(self, e, env, kind):
        if len(e.generators) != 1:
            raise Unsupported("nested comprehension")
        g = e.generators[0]
        it = self.ev(g.iter, env)
        if isinstance(it, ast.AST):
            raise Unsupported("comprehension iter")
        if ('comprehension', type(it).__name__) in self.hooks:
            return self.hooks[('comprehension', type(it).__name__)](self, it, g, e, env, kind)
        conc = self.concrete_iter(it)
        if conc is not None:
            out = []
            for x in conc:
                env2 = dict(env)
                self.assign(g.target, x, env2)
                ok = True
                for c in g.ifs:
                    if not self.ctx.branch(truth(self.ctx, self.ev(c, env2)), f"compif@{c.lineno}"):
                        ok = False
                        break
                if ok:
                    out.append(self.ev(e.elt, env2))
            if kind == 'set':
                return SetVal(out)
            return out
        # symbolic source: a lazily filtered/mapped view
        return ('view', it, g.target, list(g.ifs), e.elt, env, kind)

    def concrete_iter(self, it):
        if isinstance(it, (list, tuple)) and not (isinstance(it, tuple) and it and isinstance(it[0], str) and it[0] in TAGS):
            return list(it)
        if isinstance(it, SetVal):
            if getattr(it, 'open', False):
                return None
            if len(it.elems) <= 1:
                return list(it.elems)
            return None
        if isinstance(it, dict):
            return list(it.keys())
        if isinstance(it, tuple) and it and it[0] == 'range':
            lo, hi = it[1], it[2]
            if z3.is_expr(lo) or z3.is_expr(hi):
                return None
            return list(range(int(lo), int(hi)))
        if isinstance(it, tuple) and it and it[0] == 'zip':
            parts = [self.concrete_iter(p) for p in it[1]]
            if any(p is None for p in parts):
                return None
            return list(zip(*parts))
        return None

    # ---------------------------------------------------------------- symbolic dict
    def sd_key(self, k):
        if isinstance(k, tuple):
            return tuple(self.sd_key(x) for x in k)
        if z3.is_expr(k):
            return ('z3', z3.simplify(k).sexpr())
        if isinstance(k, FStr):
            return ('fstr',) + tuple(self.sd_key(x) for x in k.parts)
        return k

    def sd_has(self, d, k):
        res_terms = []
        # overlay, most recent first
        for ok, ov in reversed(d.overlay):
            c = eq(k, ok)
            if isinstance(c, bool):
                if c:
                    return ov is not DELETED
                continue
            if self.ctx.branch(c, f"sd-alias:{d.name}"):
                return ov is not DELETED
        kk = self.sd_key(k)
        if kk not in d.memo_has:
            h = d.has_hook(self, k) if d.has_hook else None
            d.memo_has[kk] = h if h is not None else self.ctx.fresh(f"has_{d.name.split('#')[0]}", 'B')
        return d.memo_has[kk]

    def sd_get(self, d, k):
        for ok, ov in reversed(d.overlay):
            c = eq(k, ok)
            if isinstance(c, bool):
                if c:
                    if ov is DELETED:
                        raise PyRaise('KeyError', f"{d.name}[{k!r}]")
                    return ov
                continue
            if self.ctx.branch(c, f"sd-alias:{d.name}"):
                if ov is DELETED:
                    raise PyRaise('KeyError', f"{d.name}[{k!r}]")
                return ov
        h = self.sd_has(d, k)
        if not self.ctx.branch(h, f"sd-has:{d.name}"):
            raise PyRaise('KeyError', f"{d.name}[{k!r}]")
        kk = self.sd_key(k)
        if kk not in d.memo_val:
            d.memo_val[kk] = d.val_factory(self, k)
        return d.memo_val[kk]

    def sd_set(self, d, k, v):
        d.overlay.append((k, v))
        d.writes.append((k, v))
        self.ctx.events.append(Event('dictset', d=d, key=k, value=v, loops=list(self.ctx.loop_stack)))

    # ---------------------------------------------------------------- calls
    def e_Call(self, e, env):
        # dropped: logging / printing / timing (effect-free for the properties)
        if isinstance(e.func, ast.Attribute) and isinstance(e.func.value, ast.Name):
            dotted = f"{e.func.value.id}.{e.func.attr}"
            if e.func.value.id == 'logger':
                if e.func.attr == 'isEnabledFor':
                    return self.debug
                return None
            if dotted in DROPPED_CALLS:
                return 0 if dotted == 'time.time' else None
        if isinstance(e.func, ast.Name) and e.func.id == 'print' and 'print' not in env:
            return None
        if isinstance(e.func, ast.Name) and e.func.id == 'super':
            if e.args:
                cls = self.ev(e.args[0], env)
                return SuperVal(cls.name, self.ev(e.args[1], env))
            return SuperVal(env['$class'], env[env['$selfname']])
        f = self.ev(e.func, env)
        args = []
        for a in e.args:
            if isinstance(a, ast.Starred):
                args.extend(self.ev(a.value, env))
            else:
                args.append(self.ev(a, env))
        kw = {}
        for k in e.keywords:
            v = self.ev(k.value, env)
            if k.arg is None:
                if not isinstance(v, dict):
                    raise Unsupported("** of non-dict")
                kw.update(v)
            else:
                kw[k.arg] = v
        return self.call(f, args, kw, e)

    def call(self, f, args, kw, node=None):
        if isinstance(f, Bound):
            if isinstance(f.func, Model):
                return f.func.fn(self, f.self_obj, *args, **kw)
            return self.call_fn(f.func, [f.self_obj] + list(args), kw, node)
        if isinstance(f, FuncVal):
            return self.call_fn(f, list(args), kw, node)
        if isinstance(f, Model):
            return f.fn(self, *args, **kw)
        if isinstance(f, ClassVal):
            return self.construct(f.name, args, kw, node)
        if isinstance(f, tuple) and f and f[0] == 'lambda':
            _, lam, lenv = f
            env2 = dict(lenv)
            for a, v in zip(lam.args.args, args):
                env2[a.arg] = v
            return self.ev(lam.body, env2)
        if isinstance(f, tuple) and f and f[0] == 'builtin_method':
            return self.builtin_method(f[1], f[2], args, kw, node)
        raise Unsupported(f"call of {f!r}")

    def builtin_method(self, o, name, args, kw, node=None):
        if isinstance(o, HavocColl):
            if name in ('add', 'append', 'update', 'discard', 'remove', 'extend', 'insert', 'clear', 'setdefault'):
                o.mutations.append((name, args))
                return None
            raise Unsupported(f"read access {name} on a container mutated inside a cut-point loop ({o.name})")
        if isinstance(o, Accum):
            if name == 'append':
                o.appended.append(args[0])
                self.ctx.events.append(Event('append', acc=o, value=args[0], loops=list(self.ctx.loop_stack)))
                return None
            if name == 'sort' and ('accum_sort',) in self.hooks:
                return self.hooks[('accum_sort',)](self, o)
            raise Unsupported(f"accumulator.{name}")
        if isinstance(o, list):
            if name == 'append':
                o.append(args[0])
                return None
            if name == 'pop':
                return o.pop(*[int(a) for a in args])
            if name == 'insert':
                o.insert(int(args[0]), args[1])
                return None
            if name == 'extend':
                o.extend(args[0])
                return None
        if isinstance(o, dict):
            if name == 'get':
                for k, v in o.items():
                    if self.ctx.branch(eq(args[0], k), 'dict.get'):
                        return v
                return args[1] if len(args) > 1 else None
            if name == 'items':
                return list(o.items())
            if name == 'keys':
                return list(o.keys())
            if name == 'values':
                return list(o.values())
            if name == 'update':
                o.update(args[0])
                return None
            if name == 'pop':
                for k in list(o):
                    if self.ctx.branch(eq(args[0], k), 'dict.pop'):
                        return o.pop(k)
                if len(args) > 1:
                    return args[1]
                raise PyRaise('KeyError', repr(args[0]))
        if isinstance(o, SymDict):
            if name in ('items', 'keys', 'values'):
                return ('sdview', o, name)
            if name == 'get':
                h = self.sd_has(o, args[0])
                if self.ctx.branch(h, f"sd-get:{o.name}"):
                    return self.sd_get(o, args[0])
                return args[1] if len(args) > 1 else None
        if isinstance(o, SetVal):
            if name == 'update':
                src = args[0]
                if isinstance(src, SetVal):
                    for x in src.elems:
                        if not any(x is y for y in o.elems):
                            o.elems.append(x)
                    return None
                if ('set_update',) in self.hooks:
                    return self.hooks[('set_update',)](self, o, src)
                if isinstance(src, SymColl):
                    # elements of unknown number are added: the set is 'open' from here on (no enumeration possible)
                    o.open = True
                    self.ctx.events.append(Event('set-opened', obj=o, src=src, loops=list(self.ctx.loop_stack)))
                    return None
            if name == 'add':
                if not any(args[0] is y for y in o.elems):
                    o.elems.append(args[0])
                return None
        if ('method', type(o).__name__, name) in self.hooks:
            return self.hooks[('method', type(o).__name__, name)](self, o, *args, **kw)
        raise Unsupported(f"method {type(o).__name__}.{name}")

    def construct(self, cname, args, kw, node=None):
        if ('construct', cname) in self.models:
            return self.models[('construct', cname)].fn(self, *args, **kw)
        if cname not in self.prog.classes:
            raise Unsupported(f"constructor {cname}")
        o = Obj(cname)
        r = self.prog.find_member(cname, '__init__')
        if r:
            self.call_fn(FuncVal(r[0], self.prog.classes[r[1]][1], r[1]), [o] + list(args), kw, node)
        return o

    def bind(self, fv, args, kw):
        fn = fv.node
        a = fn.args
        env = {'$module': fv.module, '$class': fv.cls, '$func': fv}
        names = [x.arg for x in a.posonlyargs + a.args]
        env['$selfname'] = names[0] if names and fv.cls else None
        defaults = a.defaults
        kw = dict(kw)
        if len(args) > len(names):
            if a.vararg is None:
                raise PyRaise('TypeError', f"{fv.qual}: too many positional arguments")
            env[a.vararg.arg] = tuple(args[len(names):])
            args = args[:len(names)]
        elif a.vararg is not None:
            env[a.vararg.arg] = ()
        for n, v in zip(names, args):
            env[n] = v
        for i, n in enumerate(names):
            if n not in env:
                if n in kw:
                    env[n] = kw.pop(n)
                else:
                    di = i - (len(names) - len(defaults))
                    if di < 0:
                        raise PyRaise('TypeError', f"{fv.qual}: missing argument {n}")
                    env[n] = self.ev(defaults[di], {'$module': fv.module})
            elif n in kw:
                raise PyRaise('TypeError', f"{fv.qual}: multiple values for {n}")
        for ka, kd in zip(a.kwonlyargs, a.kw_defaults):
            if ka.arg in kw:
                env[ka.arg] = kw.pop(ka.arg)
            elif kd is not None:
                env[ka.arg] = self.ev(kd, {'$module': fv.module})
            else:
                raise PyRaise('TypeError', f"{fv.qual}: missing kw-only {ka.arg}")
        if kw:
            if a.kwarg is None:
                raise PyRaise('TypeError', f"{fv.qual}: unexpected keyword {sorted(kw)}")
        if a.kwarg:
            env[a.kwarg.arg] = kw
        return env

    def call_fn(self, fv, args, kw, node=None, force_inline=False):
        full = f"{fv.module.split('.')[-1]}.{fv.qual}"
        if not force_inline:
            c = self.contracts.get(full) or self.contracts.get(fv.qual)
            if c is not None:
                res = c(self, fv, args, kw)
                if res is not NotImplemented:
                    return res
        is_gen = any(isinstance(n, (ast.Yield, ast.YieldFrom)) for n in ast.walk(fv.node))
        if is_gen:
            return ('gen', fv, args, kw)
        env = self.bind(fv, args, kw)
        self.frames.append(fv)
        rv = None
        try:
            self.block(fv.node.body, env)
        except _Ret as r:
            rv = r.v
        finally:
            self.frames.pop()
        rh = self.hooks.get(('return', fv.qual))
        if rh:
            rh(self, fv, args, kw, rv)
        return rv

    # ---------------------------------------------------------------- statements
    def block(self, body, env):
        for st in body:
            m = getattr(self, 's_' + type(st).__name__, None)
            if m is None:
                raise Unsupported(f"statement {type(st).__name__} at line {st.lineno}")
            m(st, env)

    def s_Expr(self, st, env):
        if isinstance(st.value, ast.Constant):
            return
        if isinstance(st.value, ast.Yield):
            v = self.ev(st.value.value, env) if st.value.value else None
            if not self.yield_handlers:
                raise Unsupported("yield outside a consumed generator")
            self.yield_handlers[-1](v)
            return
        self.ev(st.value, env)

    def s_Pass(self, st, env):
        pass

    def s_Import(self, st, env):
        pass

    def s_ImportFrom(self, st, env):
        h = self.hooks.get(('importfrom',))
        if h:
            return h(self, st, env)
        mod = env.get('$module')
        if mod:
            pkg = mod.split('.')
            base = pkg[:len(pkg) - st.level] if st.level else []
            src = '.'.join(base + (st.module.split('.') if st.module else []))
            for a in st.names:
                sub = src + '.' + a.name
                try:
                    self.prog.load(sub)
                    env[a.asname or a.name] = ('pymodule', sub)
                except OSError:
                    pass

    def s_Return(self, st, env):
        raise _Ret(self.ev(st.value, env) if st.value else None)

    def s_Raise(self, st, env):
        et = 'Exception'
        if st.exc is not None:
            x = st.exc.func if isinstance(st.exc, ast.Call) else st.exc
            if isinstance(x, ast.Name):
                et = x.id
        raise PyRaise(et, ast.unparse(st)[:100], st)

    def s_Assert(self, st, env):
        t = self.ctx.branch(truth(self.ctx, self.ev(st.test, env)), f"assert@{st.lineno}")
        if not t:
            raise PyRaise('AssertionError', ast.unparse(st)[:100], st)

    def s_Break(self, st, env):
        raise _Break()

    def s_Continue(self, st, env):
        raise _Continue()

    def s_Global(self, st, env):
        pass

    def s_Delete(self, st, env):
        for t in st.targets:
            if isinstance(t, ast.Subscript):
                o = self.ev(t.value, env)
                k = self.ev(t.slice, env)
                if isinstance(o, SymDict):
                    if not self.ctx.branch(self.sd_has(o, k), f"sd-del:{o.name}"):
                        raise PyRaise('KeyError', repr(k))
                    o.overlay.append((k, DELETED))
                    o.writes.append((k, DELETED))
                    self.ctx.events.append(Event('dictdel', d=o, key=k, loops=list(self.ctx.loop_stack)))
                    continue
                if isinstance(o, dict):
                    for kk in list(o):
                        if self.ctx.branch(eq(k, kk), 'dictdel'):
                            del o[kk]
                            break
                    else:
                        raise PyRaise('KeyError', repr(k))
                    continue
            if isinstance(t, ast.Name) and t.id in env:
                del env[t.id]
                continue
            raise Unsupported("del statement")

    def s_FunctionDef(self, st, env):
        env[st.name] = ('closure', st, env)      # may be stored; calling it is unsupported

    def setattr(self, o, attr, v):
        if ('setattr', type(o).__name__) in self.hooks:
            return self.hooks[('setattr', type(o).__name__)](self, o, attr, v)
        if isinstance(o, Obj):
            if o.cls in self.prog.classes:
                r = self.prog.find_member(o.cls, attr, kinds=('setter',))
                if r:
                    self.call_fn(FuncVal(r[0], self.prog.classes[r[1]][1], r[1]), [o, v], {})
                    return
                g = self.prog.find_member(o.cls, attr, kinds=('getter',))
                if g:
                    raise PyRaise('AttributeError', f"can't set attribute {attr}")
            old = o.f.get(attr, '$unset')
            o.f[attr] = v
            self.ctx.events.append(Event('setattr', obj=o, attr=attr, value=v, old=old, loops=list(self.ctx.loop_stack),
                                         frame=self.frames[-1].qual if self.frames else None))
            return
        if ('setattr', type(o).__name__) in self.hooks:
            return self.hooks[('setattr', type(o).__name__)](self, o, attr, v)
        raise Unsupported(f"attribute store on {type(o).__name__}")

    def unpack(self, v, n, node=None):
        if isinstance(v, (tuple, list)) and not (isinstance(v, tuple) and v and isinstance(v[0], str) and v[0] in TAGS):
            if len(v) != n:
                raise PyRaise('ValueError', f"unpack: expected {n} values, got {len(v)} (line {getattr(node, 'lineno', '?')})")
            return list(v)
        if ('unpack', type(v).__name__) in self.hooks:
            return self.hooks[('unpack', type(v).__name__)](self, v, n, node)
        if isinstance(v, Obj) and ('unpack', v.cls) in self.hooks:
            return self.hooks[('unpack', v.cls)](self, v, n, node)
        raise Unsupported(f"unpack of {type(v).__name__}")

    def assign(self, t, v, env):
        if isinstance(t, ast.Name):
            env[t.id] = v
        elif isinstance(t, (ast.Tuple, ast.List)):
            vs = self.unpack(v, len(t.elts), t)
            for a, b in zip(t.elts, vs):
                self.assign(a, b, env)
        elif isinstance(t, ast.Attribute):
            self.setattr(self.ev(t.value, env), t.attr, v)
        elif isinstance(t, ast.Subscript):
            o = self.ev(t.value, env)
            k = self.ev(t.slice, env)
            if isinstance(o, SymDict):
                self.sd_set(o, k, v)
            elif isinstance(o, Obj) and ('setitem', o.cls) in self.hooks:
                self.hooks[('setitem', o.cls)](self, o, k, v)
            elif isinstance(o, dict):
                for kk in list(o):
                    if self.ctx.branch(eq(k, kk), 'dictstore'):
                        o[kk] = v
                        return
                o[k] = v
            elif isinstance(o, list):
                o[int(k)] = v
            elif isinstance(o, tuple) and o and o[0] == 'objdict':
                # write into the instance dict, bypassing descriptors
                o[1].f[k] = v
                self.ctx.events.append(Event('dictwrite', obj=o[1], attr=k, value=v))
            else:
                raise Unsupported(f"subscript store on {type(o).__name__}")
        else:
            raise Unsupported("assignment target")

    def s_Assign(self, st, env):
        v = self.ev(st.value, env)
        for t in st.targets:
            self.assign(t, v, env)

    def s_AnnAssign(self, st, env):
        if st.value is not None:
            self.assign(st.target, self.ev(st.value, env), env)

    def s_AugAssign(self, st, env):
        cur = self.ev(st.target, env)
        v = self.arith(type(st.op).__name__, cur, self.ev(st.value, env), st)
        self.assign(st.target, v, env)

    def s_If(self, st, env):
        t = self.ctx.branch(truth(self.ctx, self.ev(st.test, env)), f"if@{st.lineno}")
        self.block(st.body if t else st.orelse, env)

    def s_Try(self, st, env):
        try:
            self.block(st.body, env)
        except PyRaise as ex:
            for h in st.handlers:
                names = []
                if h.type is None:
                    names = None
                elif isinstance(h.type, ast.Name):
                    names = [h.type.id]
                elif isinstance(h.type, ast.Tuple):
                    names = [x.id for x in h.type.elts if isinstance(x, ast.Name)]
                elif isinstance(h.type, ast.Attribute):
                    names = [h.type.attr]
                if names is None or ex.etype in names or 'Exception' in names:
                    if h.name:
                        env[h.name] = Obj('exc', etype=ex.etype, msg=ex.msg)
                    self.block(h.body, env)
                    break
            else:
                raise
        else:
            self.block(st.orelse, env)
        finally:
            if st.finalbody:
                self.block(st.finalbody, env)

    def s_With(self, st, env):
        raise Unsupported("with statement")

    # ---------------------------------------------------------------- loops
    def loop_id(self, st):
        # the statement may belong to a frame below the top one (a loop body running as the consumer of a generator)
        for fv in reversed(self.frames):
            loops = [n for n in ast.walk(fv.node) if isinstance(n, (ast.For, ast.While))]
            if any(n is st for n in loops):
                loops.sort(key=lambda n: (n.lineno, n.col_offset))
                return (fv.qual, [i for i, n in enumerate(loops) if n is st][0])
        return ('<top>', st.lineno)

    def assigned_names(self, body):
        out = []
        for st in body:
            for n in ast.walk(st):
                if isinstance(n, ast.Name) and isinstance(n.ctx, ast.Store) and n.id not in out:
                    out.append(n.id)
        return out

    MUTATORS = ('add', 'append', 'update', 'discard', 'remove', 'extend', 'insert', 'clear', 'pop', 'setdefault', 'sort')

    def havoc_mutated_containers(self, body, env):
        """Local containers (set / list / dict values bound to a plain name) that the loop body mutates through a method
        call or a subscript store are loop-carried state: unknown content at an arbitrary iteration.  Append-only lists
        that the body never reads become accumulators."""
        mutated, appended_only, read = set(), set(), set()
        for stn in body:
            for n in ast.walk(stn):
                if isinstance(n, ast.Call) and isinstance(n.func, ast.Attribute) and isinstance(n.func.value, ast.Name) \
                        and n.func.attr in self.MUTATORS:
                    (appended_only if n.func.attr == 'append' else mutated).add(n.func.value.id)
                elif isinstance(n, (ast.Assign, ast.AugAssign)):
                    for t in (n.targets if isinstance(n, ast.Assign) else [n.target]):
                        if isinstance(t, ast.Subscript) and isinstance(t.value, ast.Name):
                            mutated.add(t.value.id)
                elif isinstance(n, ast.Name) and isinstance(n.ctx, ast.Load):
                    read.add(n.id)
        # the same for a list held in an attribute of a local object (`self.acc.append(x)`): append-only -> accumulator,
        # otherwise unknown content
        attr_app, attr_mut, attr_read = set(), set(), set()
        for stn in body:
            for n in ast.walk(stn):
                if isinstance(n, ast.Call) and isinstance(n.func, ast.Attribute) and isinstance(n.func.value, ast.Attribute) \
                        and isinstance(n.func.value.value, ast.Name) and n.func.attr in self.MUTATORS:
                    key = (n.func.value.value.id, n.func.value.attr)
                    (attr_app if n.func.attr == 'append' else attr_mut).add(key)
        for stn in body:
            for n in ast.walk(stn):
                if isinstance(n, ast.Attribute) and isinstance(n.value, ast.Name) and isinstance(n.ctx, ast.Load) \
                        and (n.value.id, n.attr) in attr_app | attr_mut:
                    attr_read.add((n.value.id, n.attr))
        for (onm, anm) in attr_app | attr_mut:
            o = env.get(onm)
            if isinstance(o, Obj) and isinstance(o.f.get(anm), list):
                # every `x.a.append(..)` is itself one Load of x.a: more loads than mutating calls means the body reads it
                loads = sum(1 for stn in body for n in ast.walk(stn) if isinstance(n, ast.Attribute) and isinstance(n.value, ast.Name)
                            and isinstance(n.ctx, ast.Load) and (n.value.id, n.attr) == (onm, anm))
                calls = sum(1 for stn in body for n in ast.walk(stn) if isinstance(n, ast.Call) and isinstance(n.func, ast.Attribute)
                            and isinstance(n.func.value, ast.Attribute) and isinstance(n.func.value.value, ast.Name)
                            and (n.func.value.value.id, n.func.value.attr) == (onm, anm) and n.func.attr in self.MUTATORS)
                if (onm, anm) in attr_app and (onm, anm) not in attr_mut and loads == calls:
                    o.f[anm] = Accum(f"{onm}.{anm}", init=o.f[anm])
                else:
                    o.f[anm] = HavocColl(f"{onm}.{anm}")
        for nm in mutated | appended_only:
            v = env.get(nm)
            if isinstance(v, (SetVal, list, dict)) and not isinstance(v, (SymDict,)):
                if nm in appended_only and nm not in mutated and isinstance(v, list):
                    env[nm] = Accum(nm, init=v)
                else:
                    env[nm] = HavocColl(nm)

    def havoc_like(self, v, nm):
        if z3.is_expr(v):
            if z3.is_int(v):
                return self.ctx.fresh(nm, 'I')
            if z3.is_real(v):
                return self.ctx.fresh(nm, 'R')
            if z3.is_bool(v):
                return self.ctx.fresh(nm, 'B')
            return self.ctx.fresh(nm, v.sort())
        if isinstance(v, bool):
            return self.ctx.fresh(nm, 'B')
        if isinstance(v, int):
            return self.ctx.fresh(nm, 'I')
        if isinstance(v, Fraction):
            return self.ctx.fresh(nm, 'R')
        if isinstance(v, tuple):
            return tuple(self.havoc_like(x, nm) for x in v)
        return v   # objects, None, accumulators: kept (LoopSpec.havoc may override)

    def s_For(self, st, env):
        it = self.ev(st.iter, env)
        conc = self.concrete_iter(it)
        if conc is not None:
            broke = False
            for x in conc:
                self.assign(st.target, x, env)
                try:
                    self.block(st.body, env)
                except _Break:
                    broke = True
                    break
                except _Continue:
                    continue
            if not broke and st.orelse:
                self.block(st.orelse, env)
            return
        self.cut_loop(st, env, it)

    def arbitrary_elements(self, it, st, env, body_cb):
        """Drive body_cb(element) for an arbitrary element of a symbolic iterable (may invoke it on several
        alternative paths, e.g. through generator yields)."""
        if isinstance(it, SymColl):
            v, assumes = it.elem(self)
            self.ctx.assume(*assumes)
            return body_cb(v)
        if isinstance(it, SetVal):
            # len >= 2 here: order is havoced -> arbitrary element by choice
            k = self.ctx.choice(len(it.elems), 'set-elem')
            return body_cb(it.elems[k])
        if isinstance(it, tuple) and it and it[0] == 'sdview':
            _, d, kind = it
            if d.key_factory is None:
                raise Unsupported(f"iteration over {d.name} without key factory")
            # arbitrary key of the *base* content or one of the overlay entries
            n_over = len(d.overlay)
            k = self.ctx.choice(n_over + 1, 'sd-iter') if n_over else 0
            if k == 0:
                key = d.key_factory(self)
                self.ctx.assume(self.sd_has(d, key))
                val = self.sd_get(d, key)
            else:
                key, val = d.overlay[k - 1]
            return body_cb({'items': (key, val), 'keys': key, 'values': val}[kind])
        if isinstance(it, SymDict):
            return self.arbitrary_elements(('sdview', it, 'keys'), st, env, body_cb)
        if isinstance(it, tuple) and it and it[0] == 'view':
            _, src, target, ifs, elt, venv, kind = it

            def inner(x):
                env2 = dict(venv)
                self.assign(target, x, env2)
                for c in ifs:
                    if not self.ctx.branch(truth(self.ctx, self.ev(c, env2)), f"viewif@{c.lineno}"):
                        raise EndPath('filtered-out element')
                return body_cb(self.ev(elt, env2))
            return self.arbitrary_elements(src, st, env, inner)
        if isinstance(it, tuple) and it and it[0] == 'gen':
            _, fv, args, kw = it
            genv = self.bind(fv, args, kw)
            self.yield_handlers.append(body_cb)
            self.frames.append(fv)
            try:
                try:
                    self.block(fv.node.body, genv)
                except _Ret:
                    pass
            finally:
                self.frames.pop()
                self.yield_handlers.pop()
            raise EndPath('generator exhausted on an iteration path')
        if isinstance(it, tuple) and it and it[0] == 'range':
            return body_cb(env['$idx'])
        if isinstance(it, tuple) and it and it[0] == 'chain':
            # an arbitrary element of a concatenation is an arbitrary element of one of its parts
            parts = it[1]
            k = self.ctx.choice(len(parts), 'chain-part') if len(parts) > 1 else 0
            part = parts[k]
            conc = self.concrete_iter(part)
            if conc is not None:
                if not conc:
                    raise EndPath('empty part of a chain')
                j = self.ctx.choice(len(conc), 'chain-elem') if len(conc) > 1 else 0
                return body_cb(conc[j])
            return self.arbitrary_elements(part, st, env, body_cb)
        if ('iterate', type(it).__name__) in self.hooks:
            return self.hooks[('iterate', type(it).__name__)](self, it, st, env, body_cb)
        if isinstance(it, tuple) and it and isinstance(it[0], str) and ('iterate', it[0]) in self.hooks:
            return self.hooks[('iterate', it[0])](self, it, st, env, body_cb)
        raise Unsupported(f"iteration over {type(it).__name__} {it if isinstance(it, tuple) and it and isinstance(it[0], str) else ''}")

    def cut_loop(self, st, env, it):
        lid = self.loop_id(st)
        spec = self.loops.get(lid)
        ctx = self.ctx
        inside_gen = bool(self.yield_handlers) and self.frames and \
            any(isinstance(n, ast.Yield) for n in ast.walk(st))
        mode = ctx.choice(2, f"loop{lid}")      # 0: arbitrary iteration, 1: after the loop
        names = self.assigned_names(st.body) + self.assigned_names([ast.Expr(st.target)] if False else [])
        is_range = isinstance(it, tuple) and it and it[0] == 'range'
        indexed = self.hooks.get(('indexed', it[0] if isinstance(it, tuple) and it and isinstance(it[0], str) and it[0] in TAGS else type(it).__name__))
        if indexed is not None and not is_range:
            # an indexable symbolic sequence: iterate as range(0, n) with element elem_at(idx)
            n_, elem_at = indexed(self, it)
            env['$seq'] = (it, elem_at)
            it = ('range', 0, n_)
            is_range = True
        if is_range:
            env['$idx'] = to_z3(it[1])
            ctx.events.append(Event('loop-range', lid=lid, lo=it[1], hi=it[2], loops=list(ctx.loop_stack)))
        if spec and spec.get('init'):
            for nm, g in spec['init'](self, env):
                ctx.oblige(f"{lid[0]}::loop{lid[1]}::inv-init::{nm}", g, kind='inv-init')
        elif spec and spec.get('inv') and is_range:
            for nm, g in spec['inv'](self, env):
                ctx.oblige(f"{lid[0]}::loop{lid[1]}::inv-init::{nm}", z3.Implies(to_z3(it[1]) < to_z3(it[2]), g) if z3.is_expr(g) else g, kind='inv-init')
        # havoc loop-carried state
        pre_env = dict(env)
        for n in names:
            if n in env:
                env[n] = self.havoc_like(env[n], n)
        self.havoc_mutated_containers(st.body, env)
        if is_range:
            lo_, hi_ = to_z3(it[1]), to_z3(it[2])
            if mode == 0:
                idx = ctx.fresh('idx', 'I')
                ctx.assume(lo_ <= idx, idx < hi_)
            else:
                idx = z3.If(hi_ > lo_, hi_, lo_)        # after the loop: every index has been processed
            env['$idx'] = idx
        if spec and spec.get('havoc'):
            spec['havoc'](self, env, pre_env)
        if mode == 1 and spec and spec.get('havoc_exit'):
            spec['havoc_exit'](self, env, pre_env, it)
        if spec and spec.get('inv'):
            for nm, g in spec['inv'](self, env):
                ctx.assume(g)
        if mode == 1:
            if spec and spec.get('after'):
                spec['after'](self, env)
            ctx.events.append(Event('loop-skipped', lid=lid, loops=list(ctx.loop_stack)))
            return
        # arbitrary iteration
        ctx.loop_stack.append(lid)
        ev_mark = len(ctx.events)
        broke = []

        def body_cb(x):
            if '$seq' in env and indexed is not None:
                x = env['$seq'][1](x)
            self.assign(st.target, x, env)
            ctx.events.append(Event('iter-begin', lid=lid, elem=x, loops=list(ctx.loop_stack), mark=Obj._n))
            try:
                self.block(st.body, env)
                how = 'end'
            except _Continue:
                how = 'continue'
            except _Break:
                how = 'break'
                if not (spec and spec.get('allow_break')):
                    raise Unsupported(f"undeclared break in cut-point loop {lid}")
                # a declared break leaves the loop: execution continues AFTER the loop from the state at the break
                if spec.get('body_post'):
                    spec['body_post'](self, env, pre_env, x, ctx.events[ev_mark:], how)
                ctx.events.append(Event('iter-end', lid=lid, how=how, loops=list(ctx.loop_stack)))
                broke.append(True)
                return
            if is_range:
                env['$idx'] = env['$idx'] + 1
            if spec and spec.get('inv'):
                for nm, g in spec['inv'](self, env):
                    ctx.oblige(f"{lid[0]}::loop{lid[1]}::inv-preserved::{nm}", g, kind='inv-pres')
            if spec and spec.get('body_post'):
                spec['body_post'](self, env, pre_env, x, ctx.events[ev_mark:], how)
            ctx.events.append(Event('iter-end', lid=lid, how=how, loops=list(ctx.loop_stack)))
            if inside_gen:
                return      # generator frame: control returns into the generator body
            raise EndPath(f"end of arbitrary iteration of {lid}")
        self.arbitrary_elements(it, st, env, body_cb)
        if broke:
            ctx.loop_stack.pop()
            return
        raise EndPath(f"end of arbitrary iteration of {lid}")

    def s_While(self, st, env):
        # concrete loops are simply run; symbolic condition -> cut point with invariant
        lid = self.loop_id(st)
        spec = self.loops.get(lid)
        ctx = self.ctx
        if spec is None:
            # try plain unrolling while the condition stays concrete
            guard = 0
            while True:
                c = truth(ctx, self.ev(st.test, env))
                if not isinstance(c, bool):
                    c = z3.simplify(c)
                    if z3.is_true(c):
                        c = True
                    elif z3.is_false(c):
                        c = False
                    else:
                        raise Unsupported(f"while loop {lid} with symbolic condition needs an invariant")
                if not c:
                    break
                guard += 1
                if guard > 64:
                    raise Unsupported(f"while loop {lid}: unrolling limit")
                try:
                    self.block(st.body, env)
                except _Break:
                    break
                except _Continue:
                    continue
            return
        for nm, g in spec['inv'](self, env):
            ctx.oblige(f"{lid[0]}::loop{lid[1]}::inv-init::{nm}", g, kind='inv-init')
        pre_env = dict(env)
        for n in self.assigned_names(st.body):
            if n in env:
                env[n] = self.havoc_like(env[n], n)
        self.havoc_mutated_containers(st.body, env)
        if spec.get('havoc'):
            spec['havoc'](self, env, pre_env)
        for nm, g in spec['inv'](self, env):
            ctx.assume(g)
        variant0 = spec['variant'](self, env) if spec.get('variant') else None
        c = truth(ctx, self.ev(st.test, env))
        if ctx.branch(c, f"while{lid}"):
            ctx.loop_stack.append(lid)
            ev_mark = len(ctx.events)
            ctx.events.append(Event('iter-begin', lid=lid, elem=None, loops=list(ctx.loop_stack), mark=Obj._n))
            how = 'end'
            try:
                self.block(st.body, env)
            except _Continue:
                how = 'continue'
            except _Break:
                if not spec.get('allow_break'):
                    raise Unsupported(f"undeclared break in while loop {lid}")
                how = 'break'
            if spec.get('body_post'):
                spec['body_post'](self, env, pre_env, None, ctx.events[ev_mark:], how)
                if how == 'break':
                    # a declared break leaves the loop: execution continues AFTER the loop from the state at the break
                    ctx.loop_stack.pop()
                    return
            for nm, g in spec['inv'](self, env):
                ctx.oblige(f"{lid[0]}::loop{lid[1]}::inv-preserved::{nm}", g, kind='inv-pres')
            if variant0 is not None:
                v1 = spec['variant'](self, env)
                ctx.oblige(f"{lid[0]}::loop{lid[1]}::variant-decreases", zand(v1 < variant0, variant0 >= 0), kind='variant')
            raise EndPath(f"end of arbitrary iteration of {lid}")
        # the loop is left because its condition is false: clauses about the exit state (emitted under this path condition)
        if spec.get('on_exit'):
            spec['on_exit'](self, env, pre_env)
        return


# ----------------------------------------------------------------------------------------------------
def explore(run, max_paths=20000, prune=True, feas_timeout=1500):
    """run(ctx) -> outcome.  Returns list of (ctx, outcome) for every explored path.
    outcome kinds: ('ret', value) | ('raise', PyRaise) | ('end', why) | ('unsupported', msg)"""
    stack = [[]]
    out = []
    while stack:
        dec = stack.pop()
        ctx = Ctx(dec, prune=prune, feas_timeout=feas_timeout)
        try:
            oc = run(ctx)
        except EndPath as e:
            oc = ('end', e.why)
        except PyRaise as e:
            oc = ('raise', e)
        except Unsupported as e:
            oc = ('unsupported', str(e))
        except (_Ret, _Break, _Continue):
            raise
        except Exception as e:      # a sidecar callback that no longer fits the code: undecided, never a crash or a violation
            import traceback
            import os as _os
            if _os.environ.get('VERIF_VERBOSE'):
                traceback.print_exc()
            oc = ('unsupported', f"sidecar/engine error {type(e).__name__}: {e} @ {traceback.format_exc().strip().splitlines()[-3][:120]}")
        stack.extend(ctx.new)
        for k, o in enumerate(ctx.obl):
            o.path_id = len(out)
        out.append((ctx, oc))
        if len(out) > max_paths:
            raise RuntimeError("path explosion")
    return out
