"""Discharge obligations: one SMT query each (hyps and not goal), z3 5.x in a process pool, cvc5 and the
z3 4.8 CLI as fall-backs for `unknown`.  Verdicts: proved / refuted (+model) / unknown."""
import os
import subprocess
import tempfile
import time
import multiprocessing as mp
import z3

_CVC5 = '/usr/bin/cvc5'
_Z3OLD = '/usr/bin/z3'


def to_smt2(hyps, goal):
    s = z3.Solver()
    for h in hyps:
        s.add(h)
    s.add(z3.Not(goal))
    return s.to_smt2()


def _model_dict(m):
    out = {}
    for d in m.decls():
        try:
            v = m[d]
            if z3.is_rational_value(v):
                out[d.name()] = f"{v.numerator_as_long()}/{v.denominator_as_long()}"
            elif z3.is_algebraic_value(v):
                out[d.name()] = v.as_decimal(25).rstrip('?')
            elif z3.is_int_value(v):
                out[d.name()] = str(v.as_long())
            elif z3.is_true(v) or z3.is_false(v):
                out[d.name()] = 'true' if z3.is_true(v) else 'false'
            else:
                out[d.name()] = v.sexpr() if hasattr(v, 'sexpr') else str(v)
        except Exception:
            pass
    return out


def _solve_one(job):
    idx, text, timeout_ms, want_model, tactic_fallback = job
    t0 = time.time()
    reason = ''
    try:
        # portfolio: the plain CDCL(T) core first (instant on linear/propositional conflicts, where the default
        # strategy would first spend a fixed ~14 s in nlsat), then z3's default strategy with the full budget
        for tac, budget in (('smt', min(2000, timeout_ms)), (None, timeout_ms)):
            s = z3.Tactic(tac).solver() if tac else z3.Solver()
            s.set('timeout', budget)
            s.from_string(text)
            r = s.check()
            tag = 'z3-%s%s' % (z3.get_version_string(), '/smt' if tac else '')
            if r == z3.unsat:
                return idx, 'proved', tag, time.time() - t0, None
            if r == z3.sat:
                md = _model_dict(s.model()) if want_model else None
                return idx, 'refuted', tag, time.time() - t0, md
            reason = s.reason_unknown()
    except Exception as e:  # parse errors etc. -> unknown, never a violation
        reason = f"z3 error: {e}"
    # fall-backs
    if tactic_fallback:
        for name, cmd in (('cvc5-1.0.3', [_CVC5, '--tlimit=%d' % timeout_ms, '--produce-models']),
                          ('z3-4.8.12', [_Z3OLD, '-T:%d' % max(1, timeout_ms // 1000), 'smt.random_seed=7'])):
            try:
                with tempfile.NamedTemporaryFile('w', suffix='.smt2', delete=False) as f:
                    f.write(text)
                    fn = f.name
                try:
                    p = subprocess.run(cmd + [fn], capture_output=True, text=True, timeout=timeout_ms / 1000 + 5)
                finally:
                    os.unlink(fn)
                out = p.stdout.strip().splitlines()
                if out and out[0].strip() == 'unsat':
                    return idx, 'proved', name, time.time() - t0, None
                if out and out[0].strip() == 'sat':
                    return idx, 'refuted', name, time.time() - t0, {'$raw': '\n'.join(out[1:])[:2000]}
            except Exception:
                pass
    return idx, 'unknown', reason, time.time() - t0, None


class Result:
    __slots__ = ('ob', 'verdict', 'solver', 'time', 'model')

    def __init__(self, ob, verdict, solver, t, model):
        self.ob, self.verdict, self.solver, self.time, self.model = ob, verdict, solver, t, model


def discharge(obligations, timeout_ms=20000, procs=None, fallback=True, budget=None, retry_serial=True):
    """obligations: list of Obligation.  Returns list of Result in the same order.
    budget(ob) -> per-obligation timeout in ms (default timeout_ms).  Obligations that come back `unknown` with the
    full default budget are retried once with 3x the budget on a quarter of the cores (so that a verdict does not
    degrade just because all cores were busy)."""
    procs = procs or min(16, os.cpu_count() or 4)
    jobs = []
    res = [None] * len(obligations)
    for i, ob in enumerate(obligations):
        g = z3.simplify(ob.goal) if z3.is_expr(ob.goal) else z3.BoolVal(bool(ob.goal))
        if z3.is_true(g):
            res[i] = Result(ob, 'proved', 'trivial', 0.0, None)
            continue
        tmo = budget(ob) if budget else timeout_ms
        jobs.append((i, to_smt2(ob.hyps, ob.goal), tmo, True, fallback and tmo >= timeout_ms))
    if jobs:
        if len(jobs) == 1 or procs == 1:
            outs = [_solve_one(j) for j in jobs]
        else:
            ctxm = mp.get_context('fork')
            with ctxm.Pool(min(procs, len(jobs))) as pool:
                outs = pool.map(_solve_one, jobs, chunksize=1)
        for idx, verdict, solver, t, model in outs:
            res[idx] = Result(obligations[idx], verdict, solver, t, model)
        if retry_serial:
            again = [(j[0], j[1], j[2] * 3, True, fallback) for j in jobs
                     if res[j[0]].verdict == 'unknown' and j[2] >= timeout_ms]
            if again:
                if os.environ.get('VERIF_VERBOSE'):
                    print(f"  [solve] retrying {len(again)} unknown obligations: " + ', '.join(obligations[j[0]].name for j in again[:12]), flush=True)
                ctxm = mp.get_context('fork')
                with ctxm.Pool(max(1, min(procs // 4, len(again)))) as pool:
                    outs = pool.map(_solve_one, again, chunksize=1)
                for idx, verdict, solver, t, model in outs:
                    if verdict != 'unknown':
                        res[idx] = Result(obligations[idx], verdict, solver + '/retry', t + res[idx].time, model)
    return res


def check_sat(hyps, timeout_ms=5000):
    """Reachability cover: are the hypotheses satisfiable?  Returns 'sat' / 'unsat' / 'unknown'."""
    s = z3.Solver()
    s.set('timeout', timeout_ms)
    s.add(*hyps)
    return str(s.check())
