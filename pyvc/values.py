"""Value domain of the pyvc symbolic interpreter.

Concrete Python values (None, bool, int, Fraction, str, tuple, list, dict) stand for themselves.
Symbolic scalars are z3 expressions (Real / Int / Bool / Label).  Everything else is one of the
classes below.  Machine floats of the program are mathematical reals here (assumption A1).
"""
from fractions import Fraction
import z3

Label = z3.DeclareSort('Label')          # node labels: equality only (C16 label genericity)


class Unsupported(Exception):
    """Construct outside the verified subset -> obligation verdict 'unsupported', never a violation."""


class PyRaise(Exception):
    """A Python exception raised by the interpreted program."""
    def __init__(self, etype, msg='', node=None):
        super().__init__(etype, msg)
        self.etype, self.msg, self.node = etype, msg, node


class Obj:
    """Heap record with identity.  f = instance dict / slots."""
    _n = 0

    def __init__(self, cls, **f):
        Obj._n += 1
        self.__dict__['cls'] = cls
        self.__dict__['f'] = dict(f)
        self.__dict__['oid'] = Obj._n
        self.__dict__['tag'] = None

    def __repr__(self):
        return f"<{self.cls}#{self.oid}{'/' + self.tag if self.tag else ''}>"


class FStr:
    """f-string value: structural (A2: renderings are injective in their holes)."""
    def __init__(self, parts):
        self.parts = tuple(parts)

    def __repr__(self):
        return 'f' + repr(self.parts)


class SetVal:
    """Small explicit set of values (identity / structural membership).  Iteration order is havoced by
    the consumer only when len > 1 (C10)."""
    def __init__(self, elems=()):
        self.elems = list(elems)

    def __repr__(self):
        return 'Set' + repr(self.elems)


class SymColl:
    """Symbolic collection of unknown size, iterated with the foreach (cut-point) rule.
    elem(interp) -> (value, [assumptions]) produces an arbitrary element."""
    def __init__(self, name, elem, length=None, ordered=True):
        self.name, self.elem, self.length, self.ordered = name, elem, length, ordered

    def __repr__(self):
        return f"<SymColl {self.name}>"


class SymDict:
    """Symbolic finite map.  Base content is abstract (has/val by key, memoised per syntactic key), writes go
    to an overlay.  keysort: function building a fresh key for iteration."""
    _n = 0

    def __init__(self, name, val_factory, key_factory=None, has_hook=None):
        SymDict._n += 1
        self.name = f"{name}#{SymDict._n}"
        self.val_factory = val_factory      # (interp, key) -> value  (fresh, assumed invariants pushed by factory)
        self.key_factory = key_factory      # (interp) -> fresh key
        self.has_hook = has_hook            # optional (interp, key) -> z3 Bool | None
        self.overlay = []                   # list of (key, value) in write order; value DELETED for deletions
        self.memo_has = {}
        self.memo_val = {}
        self.writes = []                    # log of (key, value)

    def __repr__(self):
        return f"<SymDict {self.name}>"


class Accum:
    """Append-only list accumulator created before a cut-point loop; inside loop bodies only .append is allowed."""
    def __init__(self, name, init=()):
        self.name = name
        self.init = list(init)
        self.appended = []      # values appended on the current path (in order)

    def __repr__(self):
        return f"<Accum {self.name} +{len(self.appended)}>"


class HavocColl:
    """A container that is mutated inside a cut-point loop: at an arbitrary iteration its content is unknown
    (membership queries answer with fresh booleans, memoised per syntactic key)."""
    def __init__(self, name):
        self.name = name
        self.memo = {}
        self.mutations = []

    def __repr__(self):
        return f"<HavocColl {self.name}>"


class FuncVal:
    def __init__(self, node, module, cls=None):
        self.node, self.module, self.cls = node, module, cls

    @property
    def qual(self):
        return (self.cls + '.' if self.cls else '') + self.node.name

    def __repr__(self):
        return f"<func {self.module}:{self.qual}>"


class Bound:
    def __init__(self, func, self_obj):
        self.func, self.self_obj = func, self_obj


class ClassVal:
    def __init__(self, name):
        self.name = name

    def __repr__(self):
        return f"<class {self.name}>"


class ModVal:
    def __init__(self, name):
        self.name = name


class SuperVal:
    def __init__(self, cls, self_obj):
        self.cls, self.self_obj = cls, self_obj


class Model:
    """A builtin / dependency model: python callable (interp, *args, **kw)."""
    def __init__(self, name, fn):
        self.name, self.fn = name, fn

    def __repr__(self):
        return f"<model {self.name}>"


def is_sym(v):
    return z3.is_expr(v)


def to_z3(v):
    """Numeric / bool python value -> z3 term."""
    if z3.is_expr(v):
        return v
    if isinstance(v, bool):
        return z3.BoolVal(v)
    if isinstance(v, int):
        return z3.IntVal(v)
    if isinstance(v, Fraction):
        return z3.RealVal(str(v.numerator)) / z3.RealVal(str(v.denominator)) if v.denominator != 1 \
            else z3.RealVal(str(v.numerator))
    if isinstance(v, float):
        if v != v or v in (float('inf'), float('-inf')):
            raise Unsupported(f"non-finite float {v}")
        return to_z3(Fraction(repr(v)))
    raise Unsupported(f"to_z3({v!r})")


def num(v):
    """Normalise a python number: floats become exact Fractions (of their repr)."""
    if isinstance(v, float):
        if v != v or v in (float('inf'), float('-inf')):
            return v
        f = Fraction(repr(v))
        return int(f) if f.denominator == 1 and False else f
    return v


def is_num(v):
    return isinstance(v, (int, Fraction, float)) and not isinstance(v, bool)
