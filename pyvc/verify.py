"""Function-level verification driver on top of the interpreter."""
import z3
from .interp import Interp, Ctx, explore, Obligation, EndPath
from .values import *
from .models import std_models
from . import solve


class FnReport:
    def __init__(self, name):
        self.name = name
        self.paths = 0
        self.returning = 0
        self.raising = 0
        self.ended = 0
        self.unsupported = []
        self.obligations = []
        self.path_info = []
        self.path_pcs = []
        self.path_results = []


def verify_function(prog, fv, setup, goals, contracts=None, models=None, loops=None, hooks=None,
                    raises_ok=None, prune=True, name=None, on_path=None, feas_timeout=1500, max_paths=20000,
                    end_goals=None, split_minmax=False):
    """Explore every path of `fv` from the symbolic pre-state built by `setup(ctx, interp)` -> (args, kw).
    `goals(ctx, interp, args, kw, result)` -> [(clause, formula)] is evaluated on every returning path.
    A path ending in `raise` produces the obligation 'no-raise' (goal False) unless raises_ok(exc, ctx) is True.
    Paths that end at the end of an arbitrary loop iteration carry only the obligations created on the way
    (invariant preservation, body specs) plus `end_goals`."""
    rep = FnReport(name or fv.qual)
    mods = std_models(models)
    holder = {}

    def run(ctx):
        it = Interp(ctx, prog, models=mods, contracts=contracts or {}, loops=loops or {}, hooks=hooks or {})
        holder['it'] = it
        it.split_minmax = split_minmax
        args, kw = setup(ctx, it)
        kw = dict(kw)
        pool = kw.pop('$pool', None)
        if pool:
            # the rest of the caller's shared state, by the caller's names: a parameter of the function under contract that
            # the positional / keyword arguments do not cover and that has no default is bound from the pool when its name is
            # there (the code may thread more of the shared state through than it did when the contract was written)
            a_ = fv.node.args
            names_ = [x.arg for x in a_.posonlyargs + a_.args]
            nodef_ = set(names_[:len(names_) - len(a_.defaults)]) | {x.arg for x, d_ in zip(a_.kwonlyargs, a_.kw_defaults) if d_ is None}
            for nm_ in names_[len(args):] + [x.arg for x in a_.kwonlyargs]:
                if nm_ not in kw and nm_ in nodef_ and nm_ in pool:
                    kw[nm_] = pool[nm_]
        holder['args'] = (args, kw)
        try:
            res = it.call_fn(fv, list(args), dict(kw), force_inline=True)
        except EndPath as e:
            # obligations of an arbitrary-iteration path are evaluated while this path's objects are current
            ctx.goal_list = list(end_goals(ctx, e.why)) if end_goals else []
            raise
        # goals are evaluated here, while the objects built by setup() for THIS path are still current
        ctx.goal_list = list(goals(ctx, res))
        return ('ret', res)

    outs = explore(run, prune=prune, feas_timeout=feas_timeout, max_paths=max_paths)
    fname = name or fv.qual
    for pid, (ctx, oc) in enumerate(outs):
        rep.paths += 1
        kind = oc[0]
        for o in ctx.obl:
            o.name = f"{fname}::{o.name}[p{pid}]"
            o.path_id = pid
        obs = list(ctx.obl)
        if kind == 'ret':
            rep.returning += 1
            it = None
            # goals need the interpreter's arguments of this path: re-evaluated by closure in `goals`
            for item in ctx.goal_list:
                cl, g = item[0], item[1]
                extra_h = list(item[2]) if len(item) > 2 else []
                obs.append(Obligation(f"{fname}::{cl}[p{pid}]", list(ctx.pc) + extra_h,
                                      g if not isinstance(g, bool) else z3.BoolVal(g), 'post', extra={'clause': cl}))
        elif kind == 'raise':
            rep.raising += 1
            ex = oc[1]
            if not (raises_ok and raises_ok(ex, ctx)):
                obs.append(Obligation(f"{fname}::no-raise({ex.etype}:{ex.msg[:40]})[p{pid}]", ctx.pc, z3.BoolVal(False),
                                      'no-raise', extra={'clause': 'no-raise', 'exc': f"{ex.etype}: {ex.msg}"}))
        elif kind == 'end':
            rep.ended += 1
            for cl, g in getattr(ctx, 'goal_list', []):
                obs.append(Obligation(f"{fname}::{cl}[p{pid}]", ctx.pc, g if not isinstance(g, bool) else z3.BoolVal(g), 'post',
                                      extra={'clause': cl}))
        else:
            rep.unsupported.append(oc[1])
        if on_path:
            on_path(pid, ctx, oc, obs)
        rep.path_info.append((kind, list(ctx.trace)))
        rep.path_pcs.append((kind, list(ctx.pc)))
        rep.path_results.append(oc[1] if kind == 'ret' else None)
        rep.obligations.extend(obs)
    return rep


def cover(hyps, timeout_ms=4000):
    return solve.check_sat(hyps, timeout_ms)


def witness_cover(rep, witness, timeout_ms=3000):
    """Non-vacuity: with the concrete inputs `witness` ([(z3 const, value)]) substituted, the path condition
    (preconditions + assumed callee posts + branch conditions) of at least one returning path must be satisfiable.
    Returns the index of such a path or None."""
    subs = [(k, v if z3.is_expr(v) else z3.RealVal(str(v))) for k, v in witness]
    for pid, (kind, pc) in enumerate(rep.path_pcs):
        if kind != 'ret':
            continue
        s = z3.Solver()
        s.set('timeout', timeout_ms)
        for h in pc:
            s.add(z3.substitute(h, *subs))
        if s.check() == z3.sat:
            return pid
    return None


def _flat(v):
    if isinstance(v, (tuple, list)):
        out = []
        for x in v:
            out += _flat(x)
        return out
    return [v]


def crosscheck(rep, inputs, cpython_result, tol=1e-9, timeout_ms=4000):
    """Engine against CPython on one concrete input: with the input constants substituted, exactly the returning path(s)
    whose condition is satisfiable are the ones CPython can have taken; on each of them the symbolic result must equal the
    value the real function returned under CPython (scalars compared with an absolute+relative tolerance `tol`, since
    CPython computes in floats and the engine in reals).  Returns ('match' | 'mismatch' | 'no-path' | 'unknown', detail)."""
    from fractions import Fraction
    subs = [(k, v if z3.is_expr(v) else z3.RealVal(str(Fraction(v)))) for k, v in inputs]
    want = _flat(cpython_result)
    seen = False
    for (kind, pc), res in zip(rep.path_pcs, rep.path_results):
        if kind != 'ret':
            continue
        s = z3.Solver()
        s.set('timeout', timeout_ms)
        for h in pc:
            s.add(z3.substitute(h, *subs))
        r = s.check()
        if r == z3.unsat:
            continue
        if r != z3.sat:
            return 'unknown', 'path condition undecided under substitution'
        seen = True
        got = _flat(res)
        if len(got) != len(want):
            return 'mismatch', f"result shape {len(got)} vs {len(want)}"
        diffs = []
        for g, w in zip(got, want):
            if w is None or isinstance(w, str):
                continue
            gz = z3.substitute(to_z3(g), *subs) if z3.is_expr(g) else to_z3(g)
            if z3.is_bool(gz):
                diffs.append(gz != z3.BoolVal(bool(w)))
                continue
            wv = z3.RealVal(str(Fraction(float(w))))
            t = z3.RealVal(str(Fraction(tol * (1 + abs(float(w))))))
            gz = z3.ToReal(gz) if z3.is_int(gz) else gz
            diffs.append(z3.Or(gz - wv > t, wv - gz > t))
        s.add(z3.Or(*diffs) if diffs else z3.BoolVal(False))
        r2 = s.check()
        if r2 == z3.sat:
            return 'mismatch', f"engine result differs from CPython {want} on a feasible path: {s.model()}"[:400]
        if r2 != z3.unsat:
            return 'unknown', 'comparison undecided'
    return ('match', '') if seen else ('no-path', 'no returning path is feasible for this input')
