"""Contract of BaseMatcher.match (C03 index bookkeeping, C06 event order, C08 extension, C19 stopped entries are not
'solutions').  The callees are contracts: _create_start_nodes, _match_states, _match_non_emitting_states, _build_node_path;
lattice columns are array-backed sequences of arbitrary size."""
import ast
import z3
from pyvc.values import *
from pyvc.interp import Event, zand, zor, eq, Obligation
from pyvc.verify import verify_function
from pyvc.models import Model
from contracts import lattice as K, prune as P

R, I, B = z3.Real, z3.Int, z3.Bool
IntS, BoolS = z3.IntSort(), z3.BoolSort()
live0 = z3.Function('col_has_live_emitting_entry', IntS, BoolS)     # some non-stopped entry in layer 0 of column i
live_any = z3.Function('col_has_live_entry', IntS, BoolS)            # some non-stopped entry in any layer of column i
ptf = z3.Function('trace_point', IntS, IntS, z3.RealSort())         # (trace id, index) -> abstract point value


def b2z(x):
    return z3.BoolVal(x) if isinstance(x, bool) else x


class Path:
    def __init__(self, tid, n):
        self.tid, self.n = tid, n


def vc_match(prog, expand=False, same_path=False, width=False):
    fv = prog.func(K.BASE, 'BaseMatcher.match')
    st = {}
    n_new, n_old = I('len_path'), I('len_old_path')
    unique = B('unique')

    def setup(ctx, it):
        st.clear()
        m = K.mk_matcher('BaseMatcher')
        m.f['non_emitting_states'] = B('non_emitting_states')
        m.f['max_lattice_width'] = I('W') if width else None
        m.f['lattice'] = Obj('Lattice', cols={}, created=[])
        m.f['lattice_best'] = 'old-best'
        # value left behind by the previous call: None or an index (both are possible histories)
        m.f['early_stop_idx'] = None if ctx.choice(2, 'old-early-stop') == 0 else I('old_early_stop_idx')
        st['esi0_written'] = False
        old = Path(0, n_old)
        new = old if same_path else Path(1, n_new)
        m.f['path'] = old
        m.f['default_label_width'] = 25
        st.update(m=m, old=old, new=new, calls=[], expand_now0=m.f['expand_now'])
        ctx.assume(n_new >= 1, n_old >= 1, m.f['expand_now'] >= 0)
        if width:
            ctx.assume(I('W') >= 1)
        if same_path:
            ctx.assume(n_new == n_old)
        return [m, new], {'unique': unique, 'expand': expand}

    # ---- paths
    def h_len_path(it, p):
        return p.n

    def h_index_path(it, p, i):
        return ('pt', ptf(p.tid, to_z3(i)))

    def h_indexed_zip(it, z):
        a, b = z[1]
        if not (isinstance(a, Path) and isinstance(b, Path)):
            raise Unsupported("zip of something else than two traces")
        n = z3.If(a.n < b.n, a.n, b.n)
        return n, (lambda i: (('pt', ptf(a.tid, i)), ('pt', ptf(b.tid, i))))

    # ---- lattice
    def col(it, lat, i):
        i = to_z3(i)
        key = z3.simplify(i).sexpr()
        cols = lat.f['cols']
        if key not in cols:
            c = Obj('Column', idx=i)
            a0 = P.fresh_arrlist(it.ctx, 'layer0')
            aa = P.fresh_arrlist(it.ctx, 'alllayers')
            kq = z3.Int('k!c')
            it.ctx.assume(a0.n >= 0, aa.n >= 0,
                          live0(i) == z3.Exists([kq], z3.And(0 <= kq, kq < a0.n, z3.Not(z3.Select(a0.fields['stop'], kq)))),
                          live_any(i) == z3.Exists([kq], z3.And(0 <= kq, kq < aa.n, z3.Not(z3.Select(aa.fields['stop'], kq)))))
            c.f['layer0'], c.f['all'] = a0, aa
            cols[key] = c
        return cols[key]

    def h_contains_lattice(it, item, lat):
        return it.ctx.fresh('has_col', 'B')

    def m_values(it, c, k=None):
        return c.f['layer0']

    def m_values_all(it, c):
        return c.f['all']

    def ev(kind):
        def f(it, o, *a, **kw):
            it.ctx.events.append(Event(kind, obj=o, args=a, kw=kw, loops=list(it.ctx.loop_stack)))
            return None
        return f

    def c_start(it, fv_, args, kw):
        n = it.ctx.fresh('nb_start', 'I')
        it.ctx.assume(n >= 0)
        it.ctx.events.append(Event('create_start_nodes', kw=kw, expand_now=st['m'].f['expand_now'], path=st['m'].f['path']))
        st['nb_start'] = n
        return n

    def c_call(name):
        def f(it, fv_, args, kw):
            it.ctx.events.append(Event(name, args=args[1:], kw=kw, loops=list(it.ctx.loop_stack)))
            if name == '_build_node_path':
                st['np'] = Obj('NodePath')
                return st['np']
            return None
        return f
    models = dict(K.base_models())
    models.update({('meth', 'Column', 'values'): Model('values', m_values), ('meth', 'Column', 'values_all'): Model('values_all', m_values_all),
                   ('meth', 'Column', 'prune'): Model('prune', ev('prune')), ('meth', 'Column', 'set_delayed'): Model('set_delayed', ev('set_delayed')),
                   'tqdm': None, 'time': ModVal('time')})
    hk, _ = P.hooks(prog, st)
    hooks = {('len', 'Path'): h_len_path, ('index', 'Path'): h_index_path, ('indexed', 'zip'): h_indexed_zip,
             ('index', 'Lattice'): col, ('contains', 'Obj'): h_contains_lattice,
             ('indexed', 'ArrList'): lambda it, a: (a.n, lambda i: P.ElemRef(a, i)),
             ('getattr', 'ElemRef'): hk[('getattr', 'ElemRef')]}
    contracts = {'BaseMatcher._create_start_nodes': c_start, 'BaseMatcher._match_states': c_call('_match_states'),
                 'BaseMatcher._match_non_emitting_states': c_call('_match_non_emitting_states'),
                 'BaseMatcher._build_node_path': c_call('_build_node_path'), 'BaseMatcher.print_lattice': c_call('print_lattice')}

    # ---- loops, recognised by what they iterate over
    loops_ast = sorted([x for x in ast.walk(fv.node) if isinstance(x, (ast.For, ast.While))], key=lambda x: (x.lineno, x.col_offset))
    txt = [ast.unparse(x.iter).replace(' ', '') if isinstance(x, ast.For) else '' for x in loops_ast]
    L = {}
    for i, t in enumerate(txt):
        if t.startswith('zip('):
            L['prefix'] = i
        elif t.startswith('range(len(self.path),len(path))'):
            L['newcols'] = i
        elif t == 'iterator':
            L['main'] = i
        elif '.values(0)' in t:
            L['live0'] = i
        elif '.values_all()' in t:
            L['liveany'] = i
    st_loops = L
    jq = z3.Int('j!m')

    def inv_prefix(it, env):
        k = env['$idx']
        o, n = st['old'], st['new']
        return [('flag-is-prefix-equality-so-far', b2z(env['is_path_extended']) == z3.ForAll([jq], z3.Implies(z3.And(0 <= jq, jq < k), ptf(n.tid, jq) == ptf(o.tid, jq))))]

    def mk_inv_exists(flagname, arr_of):
        def inv(it, env):
            a = arr_of(it, env)
            k = env['$idx']
            return [(f'{flagname}-means-a-live-entry-was-seen', b2z(env[flagname]) == z3.Exists([jq], z3.And(0 <= jq, jq < k, z3.Not(z3.Select(a.fields['stop'], jq)))))]
        return inv

    def newcols_body_post(it, env, pre, elem, events, how):
        lat = env['self'].f['lattice']
        created = [e for e in it.ctx.events if e.kind == 'newcol']
        it.ctx.oblige("extend:missing-columns-are-created-existing-ones-kept",
                      b2z(len(created) <= 1 and all(eq(e.idx, elem) is not False and isinstance(e.col, Obj) and e.col.cls == 'LatticeColumn'
                                                    and eq(e.col.f.get('obs_idx'), elem) is not False for e in created)), kind='post')

    def h_setitem_lattice(it, lat, k, v):
        it.ctx.events.append(Event('newcol', idx=k, col=v, had=None))

    def main_body_post(it, env, pre, elem, events, how):
        m = st['m']
        evs = [e for e in events if e.kind in ('_match_states', '_match_non_emitting_states', 'prune')]
        idx = elem
        if how == 'break':
            it.ctx.oblige("loop:early-stop-only-when-previous-column-has-no-live-emitting-entry", z3.Not(live0(to_z3(idx) - 1)), kind='post')
            it.ctx.oblige("loop:early-stop-index-is-the-previous-observation", b2z(eq(env['self'].f['early_stop_idx'], to_z3(idx) - 1)), kind='post')
            it.ctx.oblige("loop:nothing-expanded-after-the-early-stop", b2z(len(evs) == 0), kind='post')
            return
        it.ctx.oblige("loop:continues-only-with-a-live-emitting-entry-in-the-previous-column", live0(to_z3(idx) - 1), kind='post')
        ne = m.f['non_emitting_states']
        names = [e.kind for e in evs]
        first_ok = len(evs) >= 1 and evs[0].kind == '_match_states' and eq(evs[0].args[0], idx) is not False and names.count('_match_states') == 1
        it.ctx.oblige("loop:emitting-expansion-first-and-unconditional", b2z(first_ok), kind='post')
        nes = [e for e in evs if e.kind == '_match_non_emitting_states']
        it.ctx.oblige("loop:non-emitting-search-iff-enabled-after-the-emitting-expansion",
                      z3.And(b2z(len(nes) == 1) == b2z(ne), b2z(all(eq(e.args[0], to_z3(idx) - 1) is not False and e.kw.get('expand') is expand
                                                                      and evs.index(e) > 0 for e in nes))), kind='post')
        it.ctx.oblige("loop:early_stop_idx-untouched", b2z(env['self'].f['early_stop_idx'] is None), kind='post')
        pr = [e for e in evs if e.kind == 'prune']
        if width:
            # with a width the new column is pruned once more at the end of the step (the non-emitting search, or an
            # extension round, may have re-activated entries in it)
            it.ctx.oblige("loop:new-column-re-pruned-last-when-a-width-is-set",
                          b2z(len(pr) == 1 and evs[-1] is pr[0] and eq(pr[0].obj.f['idx'], idx) is not False and eq(pr[0].args[0], 0) is not False
                              and pr[0].args[1] is m.f['max_lattice_width'] and eq(pr[0].args[2], m.f['expand_now']) is not False), kind='post')
        else:
            it.ctx.oblige("loop:no-pruning-without-a-width", b2z(len(pr) == 0), kind='post')

    def h_store_attr_lattice(it, o, k, v):
        return h_setitem_lattice(it, o, k, v)
    loops = {}
    q = fv.qual
    if 'prefix' in L:
        loops[(q, L['prefix'])] = {'inv': inv_prefix, 'allow_break': True}
    if 'newcols' in L:
        loops[(q, L['newcols'])] = {'body_post': newcols_body_post}
    if 'main' in L:
        loops[(q, L['main'])] = {'allow_break': True, 'body_post': main_body_post}
    if 'live0' in L:
        loops[(q, L['live0'])] = {'allow_break': True, 'inv': mk_inv_exists('cnt_lat_size_not_zero', lambda it, env: col(it, env['self'].f['lattice'], to_z3(env['obs_idx']) - 1).f['layer0'])}
    if 'liveany' in L:
        loops[(q, L['liveany'])] = {'allow_break': True, 'inv': mk_inv_exists('one_no_stop', lambda it, env: col(it, env['self'].f['lattice'], st['new'].n - 1).f['all'])}
    hooks[('setitem', 'Lattice')] = h_setitem_lattice

    def raises_ok(ex, ctx):
        # the documented exception: expand=True with a trace that is neither the stored one nor an extension of it
        return expand and 'Cannot expand' in ex.msg

    def common_goals(ctx):
        m = st['m']
        g = []
        starts = [e for e in ctx.events if e.kind == 'create_start_nodes']
        g.append(('init:start-phase-called-once-with-use_edges=only_edges', b2z(len(starts) == 1 and starts[0].kw.get('use_edges') is m.f['only_edges'])))
        if expand:
            g.append(('init:expansion-round-counter-incremented-once-before-the-start-phase',
                      b2z(len(starts) == 1) if not starts else (to_z3(starts[0].expand_now) == st['expand_now0'] + 1)))
            sd = [e for e in ctx.events if e.kind == 'set_delayed']
            if not same_path:
                g.append(('extend:last-old-column-re-activated-for-this-round',
                          b2z(len(sd) == 1 and eq(sd[0].obj.f['idx'], st['old'].n - 1) is not False and eq(sd[0].args[0], m.f['expand_now']) is not False)
                          if len(sd) == 1 else z3.BoolVal(False)))
                g.append(('extend:only-for-a-longer-trace', st['new'].n > st['old'].n))
                g.append(('extend:stored-trace-replaced', b2z(m.f['path'] is st['new'])))
            else:
                g.append(('expand:same-trace-changes-no-structure', b2z(len(sd) == 0 and not any(e.kind == 'newcol' for e in ctx.events))))
        else:
            g.append(('init:fresh-match-stores-the-trace-and-resets-the-round', b2z(m.f['path'] is st['new']) if True else None))
            g.append(('init:round-reset', b2z(eq(to_z3(m.f['expand_now']), z3.IntVal(0)))))
        return g

    def goals(ctx, res):
        m = st['m']
        g = common_goals(ctx)
        n = st['new'].n
        builds = [e for e in ctx.events if e.kind == '_build_node_path']
        esi = m.f['early_stop_idx']
        g.append(('result:is-a-pair', b2z(isinstance(res, tuple) and len(res) == 2)))
        rng = [e for e in ctx.events if e.kind == 'loop-range' and 'main' in st_loops and e.lid[1] == st_loops['main']]
        if rng:
            # every observation after the first is processed in every call, also in an extension round (columns of the old
            # prefix have to be re-pruned / re-expanded for the new round)
            g.append(('loop:runs-over-all-observations-1..len-1', z3.And(to_z3(rng[0].lo) == 1, to_z3(rng[0].hi) == n)))
        if not (isinstance(res, tuple) and len(res) == 2):
            return [(a, b2z(b)) for a, b in g]
        states, idx = res
        if isinstance(states, list) and len(states) == 0:
            # ([], 0): exactly when no start candidate exists or the match stopped at observation 0
            g.append(('result:empty-list-comes-with-index-0-and-empty-best-path', b2z(eq(idx, 0) is not False and m.f['lattice_best'] == [] and not builds)))
            no_start = eq(to_z3(st.get('nb_start', z3.IntVal(1))), z3.IntVal(0))
            reset = any(e.kind == 'setattr' and e.attr == 'early_stop_idx' for e in ctx.events)
            stopped0 = False if (esi is None or not reset) else eq(to_z3(esi), z3.IntVal(0))
            g.append(('result:empty-only-if-no-admissible-first-candidate', zor(no_start, stopped0)))
            # a matcher may be reused: the early stop of an EARLIER trace must not survive this call either
            g.append(('result:early_stop_idx-reset-on-every-call', b2z(reset)))
        else:
            g.append(('result:states-are-the-built-node-path', b2z(len(builds) == 1 and states is st.get('np'))))
            if len(builds) == 1:
                g.append(('result:index-is-the-start-index-of-the-backtracking', b2z(eq(builds[0].args[0], idx) is not False and builds[0].args[1] is unique)))
            if esi is None and any(e.kind == 'setattr' and e.attr == 'early_stop_idx' for e in ctx.events):
                g.append(('result:complete-match-reports-the-last-observation', z3.And(to_z3(idx) == n - 1, live_any(n - 1))))
            elif any(e.kind == 'setattr' and e.attr == 'early_stop_idx' for e in ctx.events):
                g.append(('result:early-stop-reports-the-last-matched-observation', z3.And(to_z3(idx) == to_z3(esi) - 1, to_z3(esi) >= 1, to_z3(esi) <= n - 1)))
                g.append(('result:early-stop-column-has-no-live-entry', z3.Or(z3.Not(live0(to_z3(esi))), z3.Not(live_any(to_z3(esi))))))
            else:
                g.append(('result:early_stop_idx-reset-on-every-call', z3.BoolVal(False)))
        return [(a, b2z(b)) for a, b in g]
    rep = verify_function(prog, fv, setup, goals, models=models, hooks=hooks, contracts=contracts, loops=loops, raises_ok=raises_ok,
                          name=f"BaseMatcher.match[{'expand' if expand else 'fresh'}{',same-trace' if same_path else ''}{',width' if width else ''}]", feas_timeout=1500)
    rep.loops_found = L
    return fv, rep


# ============================================================================================ BaseMatcher.increase_max_lattice_width
def vc_increase_width(prog, old_width=False):
    """BaseMatcher.increase_max_lattice_width (C07 widening, C08 round bookkeeping): the new width is stored BEFORE the matching
    continues, the matching continues through exactly one call of match() on the STORED trace in an expansion round
    (expand=True: match then increments the round counter, keeps the lattice - contract of match, groups extend:/expand:), the
    caller's `unique` and `tqdm` are handed on, the result is what match returns, and nothing else of the matcher is written by
    this function itself.  The callee match is a contract here (proved for its own body in vc_match)."""
    fv = prog.func(K.BASE, 'BaseMatcher.increase_max_lattice_width')
    st = {}
    Wn = I('W_new')
    unique = B('unique')

    def setup(ctx, it):
        st.clear()
        m = K.mk_matcher('BaseMatcher')
        m.f['max_lattice_width'] = I('W_old') if old_width else None
        m.f['lattice'] = Obj('Lattice')
        m.f['early_stop_idx'] = None if ctx.choice(2, 'old-early-stop') == 0 else I('old_early_stop_idx')
        m.f['path'] = Path(0, I('len_old_path'))
        tq = Obj('Tqdm')
        st.update(m=m, tq=tq, calls=[], pre=dict(m.f))
        ctx.assume(Wn >= 1)
        if old_width:
            # C07 speaks about increasing sequences of widths
            ctx.assume(I('W_old') >= 1, Wn >= I('W_old'))
        return [m, Wn], {'unique': unique, 'tqdm': tq}

    def c_match(it, fv_, args, kw):
        names = ('path', 'unique', 'tqdm', 'expand')
        bound = {'unique': False, 'tqdm': None, 'expand': False}
        bound.update(dict(zip(names, args[1:])))
        bound.update(kw)
        st['calls'].append(dict(recv=args[0], bound=bound, nargs=len(args) - 1 + len(kw), state=dict(args[0].f) if isinstance(args[0], Obj) else None))
        st['res'] = Obj('MatchResult')
        return st['res']

    def goals(ctx, res):
        m, calls = st['m'], st['calls']
        g = [('widen:matching-continued-by-exactly-one-call-of-match', b2z(len(calls) == 1))]
        if len(calls) == 1:
            c = calls[0]
            b, s = c['bound'], c['state'] or {}
            g.append(('widen:match-called-on-this-matcher', b2z(c['recv'] is m)))
            g.append(('widen:new-width-stored-before-the-matching-continues', b2z(eq(s.get('max_lattice_width'), Wn))))
            g.append(('widen:stored-trace-is-continued', b2z(b.get('path') is st['pre']['path'] and s.get('path') is st['pre']['path'])))
            g.append(('widen:expansion-round-requested', b2z(b.get('expand') is True)))
            g.append(('widen:unique-handed-on', b2z(b.get('unique') is unique)))
            g.append(('widen:tqdm-handed-on', b2z(b.get('tqdm') is st['tq'])))
            g.append(('widen:no-unknown-argument-to-match', b2z(set(b) == {'path', 'unique', 'tqdm', 'expand'})))
            g.append(('widen:result-is-the-result-of-match', b2z(res is st.get('res'))))
            g.append(('widen:lattice-and-round-counter-left-to-match',
                      b2z(all((s.get(k) is st['pre'][k]) or (eq(s.get(k), st['pre'][k]) is True) for k in ('lattice', 'expand_now', 'early_stop_idx', 'map', 'only_edges')))))
        g.append(('widen:width-is-the-new-one-at-return', b2z(eq(m.f.get('max_lattice_width'), Wn))))
        g.append(('widen:frame-only-the-width-is-written',
                  b2z(all(k in m.f and ((m.f[k] is st['pre'][k]) or (eq(m.f[k], st['pre'][k]) is True)) for k in st['pre'] if k != 'max_lattice_width'))))
        return [(a, b2z(b)) for a, b in g]
    rep = verify_function(prog, fv, setup, goals, models=dict(K.base_models()), contracts={'BaseMatcher.match': c_match},
                          name=f"BaseMatcher.increase_max_lattice_width[{'width->width' if old_width else 'none->width'}]")
    return fv, rep
