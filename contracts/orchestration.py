"""Contracts for the successor-generation loops of BaseMatcher (_match_states, _create_start_nodes): the foreach rule
(arbitrary iteration from a havoced loop state) with a per-element specification of the calls to next()/first() and of the
insertions into the lattice, taken from the statements of C01 (complete successor generation) and C04 (only moves the
map offers).  The map is abstract: adjacency `adj`, linked edges `linked` and coordinates `cy/cx` are uninterpreted."""
import z3
from pyvc.values import *
from pyvc.interp import Event, zand, zor, znot, eq, Obligation, truth
from pyvc.verify import verify_function
from pyvc.models import Model
from contracts import lattice as K

R, I, B = z3.Real, z3.Int, z3.Bool
adj = z3.Function('adj', Label, Label, z3.BoolSort())               # directed edge a -> b listed by the map
linked = z3.Function('linked', Label, Label, Label, Label, z3.BoolSort())
cy = z3.Function('cy', Label, z3.RealSort())
cx = z3.Function('cx', Label, z3.RealSort())


def coord(l):
    return (cy(l), cx(l))


def b2z(x):
    return z3.BoolVal(x) if isinstance(x, bool) else x


def seg_is(seg, l1, l2=None):
    """z3 formula: the Segment object denotes node l1 / edge (l1,l2) with the map's coordinates"""
    f = seg.f
    if l2 is None:
        return zand(f['l2'] is None, f['p2'] is None, eq(f['l1'], l1), eq(f['p1'], coord(l1)))
    if f['l2'] is None:
        return False
    return zand(eq(f['l1'], l1), eq(f['l2'], l2), eq(f['p1'], coord(l1)), eq(f['p2'], coord(l2)))


def align(actual, spec):
    """actual: list of python objects; spec: list of (cond, matcher(actual_item) -> formula).  Formula saying that the
    actual sequence is exactly the sub-sequence of spec items whose condition holds."""
    n, m = len(actual), len(spec)

    def rec(i, j):
        if j == m:
            return i == n
        cond, mt = spec[j]
        skip = zand(znot(cond), rec(i, j + 1))
        if i < n:
            take = zand(cond, mt(actual[i]), rec(i + 1, j + 1))
            return zor(take, skip)
        return skip
    return rec(0, 0)


def fresh_segments(ctx):
    """ownership clause for the calls of next(): next() writes the projection into both segments it is given and the result
    keeps them, so every call must get segment objects created for it - after the start of the innermost loop iteration that
    makes the call, and shared with no other call"""
    mark, ok, seen = 0, True, set()
    for e in ctx.events:
        if e.kind == 'iter-begin':
            mark = getattr(e, 'mark', 0)
        elif e.kind == 'next':
            for k in ('edge_m', 'edge_o'):
                o = e.call[k]
                if not isinstance(o, Obj) or o.oid <= mark or o.oid in seen:
                    ok = False
                else:
                    seen.add(o.oid)
    return ok


def vc_match_states(prog, state_kind='edge', family='base'):
    """One arbitrary live predecessor `m` of column obs_idx-1 (node or edge state)."""
    fv = prog.func(K.BASE, 'BaseMatcher._match_states')
    st = {}
    mcls = 'DistanceMatcher' if family == 'distance' else 'BaseMatcher'
    ecls = 'DistanceMatching' if family == 'distance' else 'BaseMatching'
    obs_idx = I('obs_idx')

    def setup(ctx, it):
        st.clear()
        matcher = K.mk_matcher(mcls, only_edges=(True if family == 'distance' else None))
        # with and without a lattice width (the expansion itself must not depend on it: pruning is a separate step)
        if ctx.choice(2, 'lattice-width-set') == 0:
            matcher.f['max_lattice_width'] = None
        else:
            matcher.f['max_lattice_width'] = I('max_lattice_width')
            ctx.assume(I('max_lattice_width') >= 1)
        path_pt = (R('oy'), R('ox'))
        matcher.f['path'] = Obj('Path', pt=path_pt)
        matcher.f['lattice'] = Obj('Lattice')
        st.update(matcher=matcher, path_pt=path_pt, calls=[], ctx=ctx)
        ctx.assume(obs_idx >= 1)
        return [matcher, obs_idx], {}

    def new_pred(it):
        ctx = it.ctx
        if state_kind == 'node':
            l1 = ctx.fresh('m_l1', 'L')
            em = Obj('Segment', l1=l1, p1=coord(l1), l2=None, p2=None, _pi=None, _ti=None)
        else:
            l1, l2 = ctx.fresh('m_l1', 'L'), ctx.fresh('m_l2', 'L')
            em = Obj('Segment', l1=l1, p1=coord(l1), l2=l2, p2=coord(l2), _pi=(ctx.fresh('pix'), ctx.fresh('piy')), _ti=ctx.fresh('ti'))
            ctx.assume(l1 != l2)                     # states are never degenerate edges (C09 invariant of the lattice)
        m = K.mk_matching('m', st['matcher'], ecls, edge_m=em, edge_o=K.mk_segment('mo', True))
        m.f['stop'] = ctx.fresh('m_stop', 'B')
        m.f['delayed'] = ctx.fresh('m_delayed', 'I')
        m.f['obs'] = obs_idx - 1
        m.f['obs_ne'] = 0
        st['m'] = m
        st['m0'] = {'stop': m.f['stop'], 'delayed': m.f['delayed']}
        return m, []

    # ---- models / contracts of everything the loop calls
    def h_index_lattice(it, o, i):
        return Obj('Column', idx=i)

    def m_values(it, col, obs_ne=None):
        st['values_arg'] = (col.f['idx'], obs_ne)
        return SymColl('column-entries', new_pred)

    def h_index_path(it, o, i):
        st.setdefault('path_idx', []).append(i)
        return o.f['pt']

    def m_nodes_nbrto(it, o, node):
        def elem(it_):
            l = it_.ctx.fresh('nbr', 'L')
            # InMemMap lists the node itself as well; SqliteMap does not (both satisfy this contract)
            return (l, coord(l)), [z3.Or(adj(node, l), l == node)]
        st['nbr_query'] = ('nodes_nbrto', node)
        return SymColl('nodes_nbrto', elem, length=it.ctx.fresh('n_nbrs', 'I'))

    def m_edges_nbrto(it, o, edge):
        def elem(it_):
            a, b = it_.ctx.fresh('nbr1', 'L'), it_.ctx.fresh('nbr2', 'L')
            l1, l2 = edge
            from_end = z3.And(a == l2, z3.Or(adj(l2, b), b == l2))
            lk = z3.And(linked(l1, l2, a, b), a != l1, a != l2, b != l1, b != l2, a != b)   # linked edges share no node
            return (a, coord(a), b, coord(b)), [z3.Or(from_end, lk)]
        st['nbr_query'] = ('edges_nbrto', edge)
        n = it.ctx.fresh('n_nbrs', 'I')
        it.ctx.assume(n >= 0)
        return SymColl('edges_nbrto', elem, length=n)

    def c_next(it, fv_, args, kw):
        me, edge_m, edge_o = args[0], args[1], args[2]
        obs = kw.get('obs', args[3] if len(args) > 3 else 0)
        obs_ne = kw.get('obs_ne', args[4] if len(args) > 4 else 0)
        k = it.ctx.choice(2, 'next-result')
        res = None
        if k == 0:
            res = K.mk_matching(f"nx{len(st['calls'])}", st['matcher'], ecls, edge_m=edge_m, edge_o=edge_o)
            res.f['obs'], res.f['obs_ne'] = obs, obs_ne
            res.f['delayed'] = me.f['delayed']
        call = {'self': me, 'edge_m': edge_m, 'edge_o': edge_o, 'obs': obs, 'obs_ne': obs_ne, 'result': res,
                'delayed0': res.f['delayed'] if res is not None else None}
        st['calls'].append(call)
        it.ctx.events.append(Event('next', call=call, loops=list(it.ctx.loop_stack)))
        return res

    def c_insert(it, fv_, args, kw):
        it.ctx.events.append(Event('insert', obj=args[1], loops=list(it.ctx.loop_stack)))
        return args[1]

    def c_prune(it, o, *a, **kw):
        it.ctx.events.append(Event('prune', col=o, args=a))
        return None
    models = dict(K.base_models())
    models.update({('meth', 'Column', 'values'): Model('LatticeColumn.values', m_values),
                   ('meth', 'Column', 'prune'): Model('LatticeColumn.prune', c_prune),
                   ('meth', 'Map', 'nodes_nbrto'): Model('map.nodes_nbrto', m_nodes_nbrto),
                   ('meth', 'Map', 'edges_nbrto'): Model('map.edges_nbrto', m_edges_nbrto)})
    hooks = {('index', 'Lattice'): h_index_lattice, ('index', 'Path'): h_index_path}
    def c_visited_ms(it, fv_, args, kw):
        # callee contract of _node_in_prev_ne (if the expansion ever consults it): some boolean about the history of the entry.
        # The emitting expansion is specified WITHOUT it: what an entry expands to does not depend on how it was reached.
        return it.ctx.fresh('visited_in_history', 'B')
    contracts = {'BaseMatching.next': c_next, 'BaseMatcher._insert': c_insert, 'BaseMatcher._node_in_prev_ne': c_visited_ms}

    def call_is(call, l1, l2=None):
        """the next() call targets node l1 / edge (l1,l2), for observation obs_idx, emitting, with the observation point"""
        eo = call['edge_o']
        return zand(call['self'] is st['m'], seg_is(call['edge_m'], l1, l2),
                    eo.f['l2'] is None and eo.f['p2'] is None, eq(eo.f['p1'], st['path_pt']),
                    eq(call['obs'], obs_idx), eq(call['obs_ne'], 0))

    def is_move(pm, call):
        """C04: the target of the call is the same state or a move the map offers from pm"""
        t = call['edge_m'].f
        if pm.f['l2'] is None:                 # from node
            if t['l2'] is None:
                return z3.Or(t['l1'] == pm.f['l1'], adj(pm.f['l1'], t['l1']))
            return z3.And(t['l1'] == pm.f['l1'], adj(pm.f['l1'], t['l2']), t['l1'] != t['l2'])
        if t['l2'] is None:                    # edge -> its end node
            return t['l1'] == pm.f['l2']
        same = z3.And(t['l1'] == pm.f['l1'], t['l2'] == pm.f['l2'])
        nxt = z3.And(t['l1'] == pm.f['l2'], adj(t['l1'], t['l2']), t['l1'] != t['l2'])
        lk = linked(pm.f['l1'], pm.f['l2'], t['l1'], t['l2'])
        return z3.Or(same, nxt, lk)

    def end_goals(ctx, why):
        g = []
        m = st.get('m')
        if m is None:
            return g
        only_edges = st['matcher'].f['only_edges']
        pm = m.f['edge_m']
        due = z3.And(z3.Not(st['m0']['stop']), st['m0']['delayed'] == st['matcher'].f['expand_now'])
        if 'filtered-out' in str(why):
            # the entry was not selected for expansion: allowed exactly when it is cut off or not due in this round
            return [('select:every-live-entry-of-this-round-is-expanded', z3.Not(due)),
                    ('select:unselected-entry-causes-no-calls', b2z(len(st['calls']) == 0))]
        # --- selection (C07/C19): the arbitrary entry reached the body only if live and due in this round
        g.append(('select:only-live-entries-of-this-round', z3.And(z3.Not(st['m0']['stop']), st['m0']['delayed'] == st['matcher'].f['expand_now'])))
        g.append(('select:previous-column-emitting-layer', b2z(eq(st['values_arg'][0], obs_idx - 1) if 'values_arg' in st else False) if True else None))
        g.append(('select:emitting-layer', b2z(eq(st['values_arg'][1], 0)) if 'values_arg' in st else z3.BoolVal(False)))
        calls = st['calls']
        evs = [e for e in ctx.events if e.kind in ('next', 'insert', 'iter-begin')]
        inner = [e for e in ctx.events if e.kind == 'iter-begin' and len(e.loops) == 2]
        # --- every non-None candidate is inserted exactly once, right after its creation, unchanged; None never
        seq = [e for e in ctx.events if e.kind in ('next', 'insert')]
        ok_ins = True
        i = 0
        while i < len(seq):
            e = seq[i]
            if e.kind == 'insert':
                ok_ins = False
                break
            r = e.call['result']
            if r is not None:
                if not (i + 1 < len(seq) and seq[i + 1].kind == 'insert' and seq[i + 1].obj is r):
                    ok_ins = False
                    break
                i += 2
            else:
                i += 1
        g.append(('insert:each-candidate-once-and-only-candidates', b2z(ok_ins)))
        g.append(('fresh:each-call-gets-its-own-segment-objects', b2z(fresh_segments(ctx))))
        g.append(('insert:candidate-unchanged', b2z(zand(*[eq(c['result'].f['delayed'], c['delayed0']) for c in calls if c['result'] is not None]))))
        # --- C04 call-site precondition of next(): only moves the map offers
        for j, c in enumerate(calls):
            g.append((f'walk:call{j}-is-a-move-the-map-offers', is_move(pm, c)))
            g.append((f'walk:call{j}-carries-map-coordinates', b2z(zand(
                eq(c['edge_m'].f['p1'], coord(c['edge_m'].f['l1'])),
                True if c['edge_m'].f['l2'] is None else eq(c['edge_m'].f['p2'], coord(c['edge_m'].f['l2']))))))
        # --- C01 coverage: the calls of this (part of the) iteration are exactly the specified ones
        if state_kind == 'node':
            if inner:
                nbr = inner[-1].elem[0]
                loc = inner[-1].elem[1]
                spec = [(z3.Not(only_edges), lambda c: call_is(c, nbr)),
                        (pm.f['l1'] != nbr, lambda c: call_is(c, pm.f['l1'], nbr))]
                g.append(('cover:node-state-per-neighbour', b2z(align(calls, spec))))
                g.append(('cover:neighbour-query', b2z(st.get('nbr_query', (None,))[0] == 'nodes_nbrto' and eq(st['nbr_query'][1], pm.f['l1']))))
            else:
                g.append(('cover:node-state-no-calls-outside-neighbour-loop', b2z(len(calls) == 0)))
        else:
            if inner:
                n1, p1, n2, p2 = inner[-1].elem
                pre = [(True, lambda c: call_is(c, pm.f['l1'], pm.f['l2']))]
                spec = pre + [(z3.And(n1 != n2, z3.Not(z3.And(n1 == pm.f['l1'], n2 == pm.f['l2']))), lambda c: call_is(c, n1, n2))]
                g.append(('cover:edge-state-stay-then-per-neighbour-edge', b2z(align(calls, spec))))
                g.append(('cover:neighbour-query', b2z(st.get('nbr_query', (None,))[0] == 'edges_nbrto' and eq(st['nbr_query'][1], (pm.f['l1'], pm.f['l2'])))))
                g.append(('cover:edge-neighbours-only-in-edge-mode', b2z(only_edges)))
            else:
                spec = [(True, lambda c: call_is(c, pm.f['l1'], pm.f['l2'])),
                        (z3.Not(only_edges), lambda c: call_is(c, pm.f['l2']))]
                g.append(('cover:edge-state-stay-and-end-node', b2z(align(calls, spec))))
        return [(n, b2z(f)) for n, f in g]

    def goals(ctx, res):
        # the path that leaves the outer loop: pruning of the new column is requested iff a width is set
        return [('after:returns-bool', b2z(isinstance(res, bool) or z3.is_expr(res)))]
    rep = verify_function(prog, fv, setup, goals, models=models, hooks=hooks, contracts=contracts, end_goals=end_goals,
                          name=f"BaseMatcher._match_states[{state_kind},{family}]")
    return fv, rep


# =============================================================================================== non-emitting search
visited = z3.Function('visited_in_ne_run', z3.IntSort(), Label, z3.BoolSort())     # abstract _node_in_prev_ne(m, label)


def _ne_world(prog, family, st, state_kind, obs_ne_of_m=None):
    """Shared symbolic world for the two non-emitting loops: matcher, abstract map, contracts of next / upsert /
    _node_in_prev_ne, an arbitrary entry `m` of cur_lattice."""
    mcls = 'DistanceMatcher' if family == 'distance' else 'BaseMatcher'
    ecls = 'DistanceMatching' if family == 'distance' else 'BaseMatching'

    def mk_matcher():
        matcher = K.mk_matcher(mcls, only_edges=(True if family == 'distance' else None))
        matcher.f['lattice'] = Obj('Lattice')
        matcher.f['matching'] = ClassVal(ecls)
        return matcher

    def new_entry(it):
        ctx = it.ctx
        if state_kind == 'node':
            l1 = ctx.fresh('m_l1', 'L')
            em = Obj('Segment', l1=l1, p1=coord(l1), l2=None, p2=None, _pi=None, _ti=None)
        else:
            l1, l2 = ctx.fresh('m_l1', 'L'), ctx.fresh('m_l2', 'L')
            em = Obj('Segment', l1=l1, p1=coord(l1), l2=l2, p2=coord(l2), _pi=(ctx.fresh('pix'), ctx.fresh('piy')), _ti=ctx.fresh('ti'))
            ctx.assume(l1 != l2)
        m = K.mk_matching('m', st['matcher'], ecls, edge_m=em, edge_o=K.mk_segment('mo', True))
        m.f['stop'] = ctx.fresh('m_stop', 'B')
        m.f['delayed'] = ctx.fresh('m_delayed', 'I')
        st['m'] = m
        st['m0'] = {'stop': m.f['stop'], 'delayed': m.f['delayed']}
        return m

    def c_next(it, fv_, args, kw):
        me, edge_m, edge_o = args[0], args[1], args[2]
        obs = kw.get('obs', args[3] if len(args) > 3 else 0)
        obs_ne = kw.get('obs_ne', args[4] if len(args) > 4 else 0)
        k = it.ctx.choice(2, 'next-result')
        res = None
        if k == 0:
            res = K.mk_matching(f"nx{len(st['calls'])}", st['matcher'], ecls, edge_m=edge_m, edge_o=edge_o)
            res.f['obs'], res.f['obs_ne'] = obs, obs_ne
            res.f['delayed'] = me.f['delayed']
            res.f['stop'] = it.ctx.fresh('nx_stop', 'B')
            # K-next: an object is returned although cut off only under debug
            it.ctx.assume(z3.Implies(res.f['stop'], it.debug))
        call = {'self': me, 'edge_m': edge_m, 'edge_o': edge_o, 'obs': obs, 'obs_ne': obs_ne, 'result': res,
                'stop0': res.f['stop'] if res is not None else None}
        st['calls'].append(call)
        it.ctx.events.append(Event('next', call=call, loops=list(it.ctx.loop_stack)))
        return res

    def c_visited(it, fv_, args, kw):
        me, label = args[1], args[2]
        return visited(z3.IntVal(me.oid), label)

    def m_nodes_nbrto(it, o, node):
        def elem(it_):
            l = it_.ctx.fresh('nbr', 'L')
            return (l, coord(l)), [z3.Or(adj(node, l), l == node)]
        st['nbr_query'] = ('nodes_nbrto', node)
        n = it.ctx.fresh('n_nbrs', 'I')
        it.ctx.assume(n >= 0)
        return SymColl('nodes_nbrto', elem, length=n)

    def m_edges_nbrto(it, o, edge):
        def elem(it_):
            a, b = it_.ctx.fresh('nbr1', 'L'), it_.ctx.fresh('nbr2', 'L')
            l1, l2 = edge
            from_end = z3.And(a == l2, z3.Or(adj(l2, b), b == l2))
            lk = z3.And(linked(l1, l2, a, b), a != l1, a != l2, b != l1, b != l2, a != b)
            return (a, coord(a), b, coord(b)), [z3.Or(from_end, lk)]
        st['nbr_query'] = ('edges_nbrto', edge)
        n = it.ctx.fresh('n_nbrs', 'I')
        it.ctx.assume(n >= 0)
        return SymColl('edges_nbrto', elem, length=n)
    models = dict(K.base_models())
    models.update({('meth', 'Map', 'nodes_nbrto'): Model('map.nodes_nbrto', m_nodes_nbrto),
                   ('meth', 'Map', 'edges_nbrto'): Model('map.edges_nbrto', m_edges_nbrto)})
    contracts = {'BaseMatching.next': c_next, 'BaseMatcher._node_in_prev_ne': c_visited}
    return mk_matcher, new_entry, models, contracts, ecls


def _is_move(pm, t):
    if pm.f['l2'] is None:
        if t['l2'] is None:
            return z3.Or(t['l1'] == pm.f['l1'], adj(pm.f['l1'], t['l1']))
        return z3.And(t['l1'] == pm.f['l1'], adj(pm.f['l1'], t['l2']), t['l1'] != t['l2'])
    if t['l2'] is None:
        return t['l1'] == pm.f['l2']
    same = z3.And(t['l1'] == pm.f['l1'], t['l2'] == pm.f['l2'])
    nxt = z3.And(t['l1'] == pm.f['l2'], adj(t['l1'], t['l2']), t['l1'] != t['l2'])
    lk = linked(pm.f['l1'], pm.f['l2'], t['l1'], t['l2'])
    return z3.Or(same, nxt, lk)


def vc_ne_end(prog, state_kind='edge', family='base'):
    """_match_non_emitting_states_end: link a non-emitting chain to the NEXT observation.  Per arbitrary live entry and
    neighbour: the call to next() is emitting, for the next observation, a move the map offers; the emitting layer of the
    next column is written ONLY through upsert (keep-the-better, C06), a candidate that does not beat the best known entry
    for its state is dropped (kept as a stopped entry under debug, C19)."""
    fv = prog.func(K.BASE, 'BaseMatcher._match_non_emitting_states_end')
    st = {}
    mk_matcher, new_entry, models, contracts, ecls = _ne_world(prog, family, st, state_kind)
    obs_idx = I('obs_idx')
    obs_next = (R('ony'), R('onx'))

    def setup(ctx, it):
        st.clear()
        st['calls'] = []
        matcher = mk_matcher()
        st['matcher'] = matcher

        def best_val(it_, key):
            b = K.mk_matching('best', matcher, ecls, edge_m=K.mk_segment('bm', False), edge_o=K.mk_segment('bo', True))
            st.setdefault('best_objs', []).append(b)
            return b
        lattice_best = SymDict('lattice_best', best_val)
        cur = SymDict('cur_lattice', lambda it_, k: new_entry(it_), key_factory=lambda it_: it_.ctx.fresh('curkey', 'I'))
        st.update(lattice_best=lattice_best, cur=cur)
        ctx.assume(obs_idx >= 1)
        # the rest of the shared state of the non-emitting search (by the names of _match_non_emitting_states): not handed to this
        # function today; bound by name should the signature ask for it (frame clause below)
        st['pool'] = {'lattice_ne': HavocColl('lattice_ne'), 'lattice_toinsert': HavocColl('lattice_toinsert'),
                      'nb_ne': I('nb_ne'), 'obs': (R('oy'), R('ox'))}
        return [matcher, cur, obs_idx, obs_next, lattice_best], {'expand': B('expand'), '$pool': st['pool']}

    def h_index_lattice(it, o, i):
        col = Obj('Column', idx=i)
        return col

    def c_upsert(it, col, m):
        it.ctx.events.append(Event('upsert', col=col, obj=m, stop=(m.f['stop'] if m is not None else None), loops=list(it.ctx.loop_stack)))
        return m

    def raw(it, col, *a, **kw):
        # a layer handed out as a plain dict: reads are arbitrary, every write is logged (frame obligation below)
        def anyval(it_, key):
            return K.mk_matching('stored', st['matcher'], ecls, edge_m=K.mk_segment('sm', False), edge_o=K.mk_segment('so', True))
        d = SymDict('raw-layer', anyval)
        it.ctx.events.append(Event('raw-layer-access', col=col, d=d))
        return d
    def lat_get(it, lat, i, default=None):
        # the lattice is a dict of columns: a column may or may not exist for an index
        return default if it.ctx.choice(2, 'lattice-has-column') == 0 else Obj('Column', idx=i)

    def sd_len(it, d):
        n = it.ctx.fresh('layer_len', 'I')
        it.ctx.assume(n >= 0)
        return n
    models.update({('meth', 'Column', 'upsert'): Model('LatticeColumn.upsert', c_upsert),
                   ('meth', 'Column', 'dict'): Model('LatticeColumn.dict', raw), ('meth', 'Column', 'values'): Model('LatticeColumn.values', raw),
                   ('meth', 'Lattice', 'get'): Model('dict.get', lat_get)})
    hooks = {('index', 'Lattice'): h_index_lattice, ('len', 'SymDict'): sd_len}

    def end_goals(ctx, why):
        m = st.get('m')
        if m is None:
            return []
        pm = m.f['edge_m']
        g = []
        live = z3.And(z3.Not(st['m0']['stop']), st['m0']['delayed'] <= st['matcher'].f['expand_now'])
        calls = st['calls']
        ups = [e for e in ctx.events if e.kind == 'upsert']
        inner = [e for e in ctx.events if e.kind == 'iter-begin' and len(e.loops) == 2]
        if not inner:
            g.append(('ne-end:no-calls-outside-the-neighbour-loop', b2z(len(calls) == 0 and len(ups) == 0)))
            return g
        g.append(('ne-end:only-live-entries-are-continued', live))
        el = inner[-1].elem
        n1, n2 = (el[0], el[2]) if state_kind == 'edge' else (None, el[0])
        vis = visited(z3.IntVal(m.oid), n2)
        if state_kind == 'edge':
            cond = z3.And(z3.Not(vis), pm.f['l1'] != n2, pm.f['l2'] != n2)
            target = lambda c: seg_is(c['edge_m'], n1, n2)
        else:
            cond = z3.And(z3.Not(vis), pm.f['l1'] != n2)
            target = lambda c: seg_is(c['edge_m'], n2)

        def call_ok(c):
            eo = c['edge_o']
            return zand(c['self'] is m, target(c), eo.f['l2'] is None and eo.f['p2'] is None, eq(eo.f['p1'], obs_next),
                        eq(c['obs'], obs_idx), eq(c['obs_ne'], 0))
        g.append(('ne-end:one-emitting-call-for-the-next-observation-per-admissible-neighbour', b2z(align(calls, [(cond, call_ok)]))))
        g.append(('fresh:each-call-gets-its-own-segment-objects', b2z(fresh_segments(ctx))))
        for j, c in enumerate(calls):
            g.append((f'walk:call{j}-is-a-move-the-map-offers', _is_move(pm, c['edge_m'].f)))
        # writes into the next column's emitting layer
        g.append(('ne-end:next-column-written-only-through-upsert(keep-the-better)',
                  b2z(not any(e.kind == 'dictset' and e.d is not st['lattice_best'] for e in ctx.events))))
        # frame: the candidate loop runs in the listing order of the map; lattice_best (keep-the-better, clauses above) and the
        # next column (upsert) are the only shared state it may write - anything else written per candidate (e.g. the set of
        # restrained edges) would record a TEMPORARY winner, i.e. the arrival order
        g.append(('ne-end:frame(no other shared state of the search is written per candidate)',
                  b2z(not any(getattr(v, 'mutations', None) for v in st['pool'].values()))))
        if calls and calls[0]['result'] is not None:
            r = calls[0]['result']
            g.append(('ne-end:at-most-one-upsert-of-the-candidate', b2z(len(ups) <= 1 and all(u.obj is r for u in ups))))
            g.append(('ne-end:upsert-into-the-column-of-the-next-observation', b2z(all(eq(u.col.f['idx'], obs_idx) for u in ups)) if ups else z3.BoolVal(True)))
            # C19: a candidate is marked as stopped here only under debug
            stop_now = r.f['stop']
            g.append(('debug:candidate-marked-stopped-only-under-debug', z3.Implies(b2z(stop_now) != b2z(calls[0]['stop0']), z3.Bool('debug'))))
            # C19: a candidate that next() returned as stopped (it exists only under debug) never becomes a best known state
            reg = [e for e in ctx.events if e.kind == 'dictset' and e.d is st['lattice_best'] and e.value is r]
            g.append(('debug:stopped-candidate-is-never-registered-as-best-known-state',
                      z3.Implies(b2z(bool(reg)), z3.Not(b2z(calls[0]['stop0'])))))
            best_objs = st.get('best_objs', [])
            if best_objs:
                b = best_objs[-1]
                g.append(('ne-end:worse-candidate-never-replaces(no live upsert unless better than the best known)',
                          z3.Implies(b2z(len(ups) == 1 and True), z3.Or(r.f['logprob'] > b.f['logprob'], b2z(r.f['stop'])))) if ups
                         else ('ne-end:dropped-only-if-not-better', z3.Not(r.f['logprob'] > b.f['logprob'])))
            else:
                g.append(('ne-end:new-state-is-always-filed', b2z(len(ups) == 1)))
        elif calls:
            g.append(('ne-end:none-is-never-filed', b2z(len(ups) == 0)))
        return [(n, b2z(f)) for n, f in g]

    def goals(ctx, res):
        return [('ne-end:returns-nothing', b2z(res is None))]
    rep = verify_function(prog, fv, setup, goals, models=models, hooks=hooks, contracts=contracts, end_goals=end_goals,
                          name=f"BaseMatcher._match_non_emitting_states_end[{state_kind},{family}]")
    return fv, rep


def vc_ne_inner(prog, state_kind='edge', family='base'):
    """_match_non_emitting_states_inner: one more non-emitting step for the SAME observation.  Per arbitrary live entry of this
    round and neighbour: the call to next() is non-emitting (obs = obs_idx, obs_ne = nb_ne) with the observation SEGMENT
    (obs, obs_next), a move the map offers; a candidate is filed in layer nb_ne of column obs_idx under ITS OWN key, or merged
    into the entry stored under that key through update(), or dropped - nothing else is written."""
    fv = prog.func(K.BASE, 'BaseMatcher._match_non_emitting_states_inner')
    st = {}
    mk_matcher, new_entry, models, contracts, ecls = _ne_world(prog, family, st, state_kind)
    obs_idx, nb_ne = I('obs_idx'), I('nb_ne')
    obs, obs_next = (R('oy'), R('ox')), (R('ony'), R('onx'))

    def setup(ctx, it):
        st.clear()
        st['calls'] = []
        matcher = mk_matcher()
        if family != 'distance':
            matcher.f['only_edges'] = (state_kind == 'edge')      # the branch for this state kind
        st['matcher'] = matcher

        def mk_any(nm):
            def f(it_, key):
                o = K.mk_matching(nm, matcher, ecls, edge_m=K.mk_segment(nm + 'm', False), edge_o=K.mk_segment(nm + 'o', True))
                st.setdefault(nm, []).append(o)
                return o
            return f
        lattice_best = SymDict('lattice_best', mk_any('best'))
        layer = SymDict('layer', mk_any('stored'))
        cur = SymDict('cur_lattice', lambda it_, k: new_entry(it_), key_factory=lambda it_: it_.ctx.fresh('curkey', 'I'))
        lattice_ne = HavocColl('lattice_ne')
        st.update(lattice_best=lattice_best, cur=cur, layer=layer)
        ctx.assume(obs_idx >= 0, nb_ne >= 1)
        return [matcher, cur, obs_idx, obs, obs_next, nb_ne, lattice_best, lattice_ne], {}

    def h_index_lattice(it, o, i):
        return Obj('Column', idx=i)

    def m_dict(it, col, k=None):
        st['layer_of'] = (col.f['idx'], k)
        return st['layer']

    def c_update(it, fv_, args, kw):
        it.ctx.events.append(Event('update', target=args[0], cand=args[1], loops=list(it.ctx.loop_stack)))
        return it.ctx.fresh('upd', 'B')
    models.update({('meth', 'Column', 'dict'): Model('LatticeColumn.dict', m_dict)})
    contracts = dict(contracts)
    contracts['BaseMatching.update'] = c_update
    hooks = {('index', 'Lattice'): h_index_lattice}

    def end_goals(ctx, why):
        m = st.get('m')
        if m is None:
            return []
        pm = m.f['edge_m']
        g = []
        due = z3.And(z3.Not(st['m0']['stop']), st['m0']['delayed'] == st['matcher'].f['expand_now'])
        calls = st['calls']
        inner = [e for e in ctx.events if e.kind == 'iter-begin' and len(e.loops) == 2]
        writes = [e for e in ctx.events if e.kind == 'dictset' and e.d is st['layer']]
        other_writes = [e for e in ctx.events if e.kind == 'dictset' and e.d is not st['layer'] and e.d is not st['lattice_best']]
        upd = [e for e in ctx.events if e.kind == 'update']
        g.append(('ne-inner:layer-is-(column obs_idx, depth nb_ne)', b2z(eq(st.get('layer_of', (None, None)), (obs_idx, nb_ne)))))
        g.append(('ne-inner:nothing-else-is-written', b2z(len(other_writes) == 0)))
        if not inner:
            g.append(('ne-inner:no-calls-outside-the-neighbour-loop', b2z(len(calls) == 0 and not writes and not upd)))
            return [(n, b2z(f)) for n, f in g]
        g.append(('ne-inner:only-live-entries-of-this-round-are-continued', due))
        el = inner[-1].elem
        n1, n2 = (el[0], el[2]) if state_kind == 'edge' else (None, el[0])
        vis = visited(z3.IntVal(m.oid), n2)
        if state_kind == 'edge':
            cond = z3.And(z3.Not(vis), pm.f['l2'] != n2, pm.f['l1'] != n2)
            target = lambda c: seg_is(c['edge_m'], n1, n2)
        else:
            cond = z3.And(z3.Not(vis), pm.f['l1'] != n2)
            target = lambda c: seg_is(c['edge_m'], n2)

        def call_ok(c):
            eo = c['edge_o']
            return zand(c['self'] is m, target(c), eo.f['l2'] is not None, eq(eo.f['p1'], obs), eq(eo.f['p2'], obs_next),
                        eq(c['obs'], obs_idx), eq(c['obs_ne'], nb_ne))
        g.append(('ne-inner:one-non-emitting-call-with-the-observation-segment-per-admissible-neighbour', b2z(align(calls, [(cond, call_ok)]))))
        g.append(('fresh:each-call-gets-its-own-segment-objects', b2z(fresh_segments(ctx))))
        for j, c in enumerate(calls):
            g.append((f'walk:call{j}-is-a-move-the-map-offers', _is_move(pm, c['edge_m'].f)))
        if calls and calls[0]['result'] is not None:
            r = calls[0]['result']
            key = (r.f['edge_m'].f['l1'], r.f['edge_m'].f['l2'], r.f['obs'], r.f['obs_ne']) if state_kind == 'edge' else \
                (r.f['edge_m'].f['l1'], r.f['obs'], r.f['obs_ne'])
            g.append(('file:candidate-filed-at-most-once-under-its-own-key', b2z(len(writes) <= 1 and all(w.value is r and eq(w.key, key) is not False for w in writes))
                      if not writes else zand(len(writes) == 1, writes[0].value is r, eq(writes[0].key, key))))
            g.append(('file:merged-only-into-the-entry-stored-under-the-same-key', b2z(all(u.cand is r and any(u.target is s_ for s_ in st.get('stored', [])) for u in upd))))
            g.append(('file:filed-or-merged-not-both', b2z(len(writes) + len(upd) <= 1)))
            # C19: a stopped entry under this key exists only under debug; a live candidate that takes its place must sit where a
            # newly inserted entry would sit (the iteration order of the layer decides between exactly equal alternatives)
            stored = st.get('stored', [])
            if stored:
                s0 = stored[-1]
                dels = [e for e in ctx.events if e.kind == 'dictdel' and e.d is st['layer']]
                idx_of = {id(e): i for i, e in enumerate(ctx.events)}
                refiled = len(dels) == 1 and len(writes) == 1 and writes[0].value is r and idx_of[id(dels[0])] < idx_of[id(writes[0])]
                g.append(('debug:placeholder-turned-live-is-ordered-like-a-new-entry',
                          z3.Implies(z3.And(b2z(s0.f['stop']), z3.Not(b2z(calls[0]['stop0'])), z3.Not(b2z(r.f['stop'])),
                                            b2z(len(writes) + len(upd) >= 1)), b2z(refiled))))
            g.append(('debug:dropped-candidate-marked-stopped-or-unchanged', z3.BoolVal(True)))
            reg = [e for e in ctx.events if e.kind == 'dictset' and e.d is st['lattice_best'] and e.value is r]
            g.append(('debug:stopped-candidate-is-never-registered-as-best-known-state',
                      z3.Implies(b2z(bool(reg)), z3.Not(b2z(calls[0]['stop0'])))))
        elif calls:
            g.append(('file:none-is-never-filed', b2z(not writes and not upd)))
        return [(n, b2z(f)) for n, f in g]

    def goals(ctx, res):
        return [('ne-inner:returns-the-layer', b2z(res is st['layer']))]
    rep = verify_function(prog, fv, setup, goals, models=models, hooks=hooks, contracts=contracts, end_goals=end_goals,
                          name=f"BaseMatcher._match_non_emitting_states_inner[{state_kind},{family}]")
    return fv, rep


# =============================================================================================== _create_start_nodes
def vc_create_start_nodes(prog, use_edges=True, family='base', expansion=False):
    """Start candidates: exactly one first() per tuple of the spatial query (degenerate edges skipped), arguments passed
    through unchanged (max_dist_init to the query; dist/projection/relative position into the Segment and first()), every
    non-None candidate upserted once into column 0; in an expansion round nothing is created or rebuilt (C01, C05, C08)."""
    fv = prog.func(K.BASE, 'BaseMatcher._create_start_nodes')
    st = {}
    mcls = 'DistanceMatcher' if family == 'distance' else 'BaseMatcher'
    ecls = 'DistanceMatching' if family == 'distance' else 'BaseMatching'
    npath = I('len_path')
    p0 = (R('p0y'), R('p0x'))

    def setup(ctx, it):
        st.clear()
        st['calls'] = []
        matcher = K.mk_matcher(mcls)
        matcher.f['path'] = Obj('Path', pt=p0, n=npath)
        matcher.f['lattice'] = Obj('Lattice', tag_='old')
        matcher.f['max_lattice_width'] = None
        matcher.f['matching'] = ClassVal(ecls)
        st['matcher'] = matcher
        st['old_lattice'] = matcher.f['lattice']
        ctx.assume(npath >= 1)
        if expansion:
            ctx.assume(matcher.f['expand_now'] > 0)
        else:
            ctx.assume(matcher.f['expand_now'] == 0)
        return [matcher], {'use_edges': use_edges}

    def h_index_path(it, o, i):
        st.setdefault('path_idx', []).append(i)
        return o.f['pt']

    def h_len_path(it, o):
        return o.f['n']

    def h_index_lattice(it, o, i):
        key = z3.simplify(to_z3(i)).sexpr()
        cols = o.f.setdefault('cols', {})
        if key not in cols:
            cols[key] = Obj('Column', idx=i, lat=o)
        return cols[key]

    def m_closeto(kind):
        def f(it, o, loc, max_dist=None, max_elmt=None):
            st['query'] = (kind, loc, max_dist, max_elmt)

            def elem(it_):
                c = it_.ctx
                if kind == 'edges':
                    a, b = c.fresh('ql1', 'L'), c.fresh('ql2', 'L')
                    t = (c.fresh('qd'), a, coord(a), b, coord(b), (c.fresh('qpiy'), c.fresh('qpix')), c.fresh('qti'))
                else:
                    a = c.fresh('ql', 'L')
                    t = (c.fresh('qd'), a, coord(a))
                return t, [t[0] >= 0]
            n = it.ctx.fresh('n_cands', 'I')
            it.ctx.assume(n >= 0)
            return SymColl(f'{kind}_closeto', elem, length=n)
        return f

    def c_first(it, fv_, args, kw):
        k = it.ctx.choice(2, 'first-result')
        res = None
        if k == 0:
            res = K.mk_matching(f"st{len(st['calls'])}", st['matcher'], ecls, edge_m=args[2], edge_o=args[3])
        st['calls'].append({'cls': args[0], 'lp_init': args[1], 'edge_m': args[2], 'edge_o': args[3], 'matcher': args[4],
                            'dist_obs': args[5], 'result': res})
        return res

    def c_upsert(it, col, m):
        it.ctx.events.append(Event('upsert', col=col, obj=m))
        return m

    def c_prune(it, col, *a, **kw):
        it.ctx.events.append(Event('prune', col=col, args=a, kw=kw))
        return None

    def c_len_col(it, col):
        return it.ctx.fresh('n_layers', 'I')
    models = dict(K.base_models())
    models.update({('meth', 'Map', 'edges_closeto'): Model('map.edges_closeto', m_closeto('edges')),
                   ('meth', 'Map', 'nodes_closeto'): Model('map.nodes_closeto', m_closeto('nodes')),
                   ('meth', 'Column', 'upsert'): Model('LatticeColumn.upsert', c_upsert),
                   ('meth', 'Column', 'prune'): Model('LatticeColumn.prune', c_prune),
                   ('meth', 'Column', '__len__'): Model('LatticeColumn.__len__', c_len_col),
                   ('meth', 'LatticeColumn', 'upsert'): Model('LatticeColumn.upsert', c_upsert),
                   ('meth', 'LatticeColumn', 'prune'): Model('LatticeColumn.prune', c_prune)})
    hooks = {('index', 'Path'): h_index_path, ('len', 'Path'): h_len_path, ('index', 'Lattice'): h_index_lattice,
             ('len', 'Column'): c_len_col}
    contracts = {'BaseMatching.first': c_first}

    # the loop that creates one column per observation: recognised by its iterable
    import ast
    loops_ast = sorted([x for x in ast.walk(fv.node) if isinstance(x, (ast.For, ast.While))], key=lambda x: (x.lineno, x.col_offset))
    col_loops = [i for i, x in enumerate(loops_ast) if isinstance(x, ast.For) and 'range(len(self.path))' in ast.unparse(x.iter).replace(' ', '')]

    def cols_after(it, env):
        # after the loop: a fresh lattice with one (empty) column per observation index
        env['self'].f['lattice'] = Obj('Lattice', tag_='new')
        st['rebuilt'] = True

    def cols_body_post(it, env, pre, elem, events, how):
        lat = env['self'].f['lattice']
        ok = isinstance(lat, dict) and any(eq(k, elem) is True or (z3.is_expr(k) and z3.is_expr(elem) and z3.eq(k, elem)) for k in lat)
        v = [vv for kk, vv in (lat.items() if isinstance(lat, dict) else []) if (z3.is_expr(kk) and z3.eq(kk, elem))]
        it.ctx.oblige("start:one-empty-column-per-observation",
                      b2z(ok and len(v) == 1 and isinstance(v[0], Obj) and v[0].cls == 'LatticeColumn' and eq(v[0].f.get('obs_idx'), elem) is not False
                          and v[0].f.get('o') == []), kind='post')
    loops = {}
    if len(col_loops) == 1:
        loops[(fv.qual, col_loops[0])] = {'after': cols_after, 'body_post': cols_body_post}

    def cand_body_post(it, env, pre, elem, events, how):
        # C03 ('empty only without an admissible first candidate') / C01: every candidate of the spatial query is looked at -
        # the loop over the query result is never left early, whatever first() says about one candidate
        if how == 'break':
            it.ctx.oblige("start:no-candidate-is-skipped(the loop over the query result runs to its end)", z3.BoolVal(False), kind='post')
    for i, x in enumerate(loops_ast):
        if isinstance(x, ast.For) and i not in col_loops and (fv.qual, i) not in loops:
            loops[(fv.qual, i)] = {'allow_break': True, 'body_post': cand_body_post}

    def common(ctx):
        m = st['matcher']
        g = []
        if expansion:
            g.append(('start:expansion-round-creates-nothing', b2z(len(st['calls']) == 0 and 'query' not in st and not st.get('rebuilt')
                                                                   and m.f['lattice'] is st['old_lattice']
                                                                   and not any(e.kind == 'upsert' for e in ctx.events))))
            pr = [e for e in ctx.events if e.kind == 'prune']
            g.append(('start:expansion-round-only-re-prunes-column-0', b2z(len(pr) == 1 and eq(pr[0].col.f['idx'], 0) is True) if len(pr) == 1 else z3.BoolVal(False)))
            return g
        q = st.get('query')
        g.append(('start:spatial-query-for-the-first-observation-with-max_dist_init',
                  b2z(q is not None and q[0] == ('edges' if use_edges else 'nodes') and eq(q[1], p0) is True and q[2] is m.f['max_dist_init'] and q[3] is None)))
        g.append(('start:lattice-rebuilt', b2z(bool(st.get('rebuilt')))))
        return g

    def end_goals(ctx, why):
        cand = [e for e in ctx.events if e.kind == 'iter-begin' and isinstance(e.elem, tuple) and len(e.elem) in (3, 7)]
        if not cand:
            return []          # iteration of the column-creating loop: its own body obligation has been emitted
        g = common(ctx) if not expansion else []
        t = cand[-1].elem
        calls = st['calls']
        ups = [e for e in ctx.events if e.kind == 'upsert']
        m = st['matcher']
        if use_edges:
            dist_obs, l1, c1, l2, c2, pi, ti = t
            cond = l1 != l2

            def ok(c):
                em, eo = c['edge_m'].f, c['edge_o'].f
                return zand(eq(em['l1'], l1), eq(em['l2'], l2), eq(em['p1'], c1), eq(em['p2'], c2), eq(em['_pi'], pi), eq(em['_ti'], ti),
                            eo['l2'] is None, eq(eo['p1'], p0), eq(c['dist_obs'], dist_obs), c['matcher'] is m,
                            eq(to_z3(c['lp_init']), z3.RealVal(0)), isinstance(c['cls'], ClassVal) and c['cls'].name == ecls)
        else:
            dist_obs, l1, c1 = t
            cond = True

            def ok(c):
                em, eo = c['edge_m'].f, c['edge_o'].f
                return zand(eq(em['l1'], l1), em['l2'] is None, eq(em['p1'], c1), eo['l2'] is None, eq(eo['p1'], p0),
                            eq(c['dist_obs'], dist_obs), c['matcher'] is m, eq(to_z3(c['lp_init']), z3.RealVal(0)))
        g.append(('start:one-first()-per-candidate-with-unchanged-arguments', b2z(align(calls, [(cond, ok)]))))
        if calls and calls[0]['result'] is not None:
            g.append(('start:candidate-upserted-once-into-column-0', b2z(len(ups) == 1 and ups[0].obj is calls[0]['result'] and eq(ups[0].col.f.get('idx'), 0) is True)
                      if len(ups) == 1 else z3.BoolVal(False)))
        else:
            g.append(('start:nothing-filed-without-a-candidate', b2z(len(ups) == 0)))
        return [(n, b2z(f)) for n, f in g]

    def goals(ctx, res):
        g = common(ctx)
        if not expansion:
            g.append(('start:no-candidates-returns-zero-or-layer-count', b2z(z3.is_expr(res) or res == 0)))
        return [(n, b2z(f)) for n, f in g]
    rep = verify_function(prog, fv, setup, goals, models=models, hooks=hooks, contracts=contracts, loops=loops, end_goals=end_goals,
                          name=f"BaseMatcher._create_start_nodes[{'edges' if use_edges else 'nodes'},{family},{'expansion' if expansion else 'fresh'}]")
    return fv, rep


# =============================================================================================== _build_node_path: choice of the final entry
def vc_build_node_path_choice(prog, last_is_e=False):
    """The loop that chooses the final lattice entry, over a column of ARBITRARY size (array model, entries listed layer by
    layer): inductive invariant 'best live entry of the deepest layer that has a live entry so far' (plain arg-max of the
    log-probability when last_is_e); stopped entries are never chosen; among equals the first listed one wins (C01, C10, C19)."""
    from contracts import prune as P
    fv = prog.func(K.BASE, 'BaseMatcher._build_node_path')
    st = {}
    start_idx = I('start_idx')
    IntS, RealS, BoolS = z3.IntSort(), z3.RealSort(), z3.BoolSort()
    kq, jq = z3.Ints('k!b j!b')

    def setup(ctx, it):
        st.clear()
        col = P.fresh_arrlist(ctx, 'col')
        col.fields['obs_ne'] = z3.Array(f"col_ne!{ctx.n}", IntS, IntS)
        ctx.assume(col.n >= 0)
        # values_all() lists the layers in order: non-emitting depth is non-decreasing along the list, and >= 0
        ne = col.fields['obs_ne']
        ctx.assume(z3.ForAll([kq, jq], z3.Implies(z3.And(0 <= kq, kq <= jq, jq < col.n), z3.And(z3.Select(ne, kq) <= z3.Select(ne, jq), z3.Select(ne, kq) >= 0))))
        matcher = K.mk_matcher('BaseMatcher')
        matcher.f['lattice'] = Obj('Lattice')
        st.update(col=col, matcher=matcher)
        return [matcher, start_idx], {'unique': False, 'last_is_e': last_is_e}

    def h_index_lattice(it, o, i):
        st['col_index'] = i
        return Obj('Column', idx=i)

    def m_values_all(it, colobj):
        return st['col']

    def c_build_matching_path(it, fv_, args, kw):
        st['chosen'] = args[1]
        raise __import__('pyvc.interp', fromlist=['EndPath']).EndPath('final entry chosen')
    hk, mods = P.hooks(prog, st)
    hk = dict(hk)
    hk[('index', 'Lattice')] = h_index_lattice
    hk[('indexed', 'ArrList')] = lambda it, a: (a.n, lambda i: P.ElemRef(a, i))

    def h_getattr(it, ref, attr):
        if attr in ref.arr.fields:
            return z3.Select(ref.arr.fields[attr], ref.idx)
        raise Unsupported(f"entry attribute {attr}")
    hk[('getattr', 'ElemRef')] = h_getattr
    models = dict(K.base_models())
    models[('meth', 'Column', 'values_all')] = Model('LatticeColumn.values_all', m_values_all)
    contracts = {'BaseMatcher._build_matching_path': c_build_matching_path}
    col_ = lambda: st['col']
    lp = lambda i: z3.Select(col_().fields['logprob'], i)
    stp = lambda i: z3.Select(col_().fields['stop'], i)
    ne = lambda i: z3.Select(col_().fields['obs_ne'], i)

    def better_or_equal(jstar, j):
        """entry jstar is at least as good as live entry j under the documented preference"""
        if last_is_e:
            return lp(j) <= lp(jstar)
        return z3.Or(ne(j) < ne(jstar), z3.And(ne(j) == ne(jstar), lp(j) <= lp(jstar)))

    def inv(it, env):
        k = env['$idx']
        nm = env['node_max']
        if nm is None:
            return [('no-live-entry-seen-so-far', z3.ForAll([jq], z3.Implies(z3.And(0 <= jq, jq < k), stp(jq))))]
        if not isinstance(nm, P.ElemRef):
            return [('node_max-is-an-entry-of-the-column', z3.BoolVal(False))]
        js = nm.idx
        out = [('chosen-is-a-live-entry-seen-so-far', z3.And(0 <= js, js < k, z3.Not(stp(js)))),
               ('chosen-is-best-so-far', z3.ForAll([jq], z3.Implies(z3.And(0 <= jq, jq < k, z3.Not(stp(jq))), better_or_equal(js, jq)))),
               ('first-of-equals-so-far', z3.ForAll([jq], z3.Implies(z3.And(0 <= jq, jq < js, z3.Not(stp(jq))), z3.Not(better_or_equal(jq, js)))))]
        if not last_is_e:
            out.append(('depth-tracks-the-chosen-entry', env['node_max_ne'] == ne(js)))
        return out

    def havoc(it, env, pre):
        # node_max: None or an arbitrary entry (decided by a choice); node_max_ne follows
        if it.ctx.choice(2, 'node_max-none') == 0:
            env['node_max'] = None
            if 'node_max_ne' in env and not last_is_e:
                env['node_max_ne'] = 0
        else:
            env['node_max'] = P.ElemRef(col_(), it.ctx.fresh('jstar', 'I'))
            if not last_is_e:
                env['node_max_ne'] = it.ctx.fresh('nm_ne', 'I')
    import ast
    loops_ast = sorted([x for x in ast.walk(fv.node) if isinstance(x, (ast.For, ast.While))], key=lambda x: (x.lineno, x.col_offset))
    which = [i for i, x in enumerate(loops_ast) if isinstance(x, ast.For) and 'values_all' in ast.unparse(x.iter)]
    loops = {}
    for i in which:
        loops[(fv.qual, i)] = {'inv': inv, 'havoc': havoc}

    def end_goals(ctx, why):
        if 'final entry chosen' not in str(why):
            return []
        ch = st.get('chosen')
        g = [('choose:column-is-lattice[start_idx]', b2z(eq(st.get('col_index'), start_idx)))]
        if not isinstance(ch, P.ElemRef):
            return g + [('choose:an-entry-of-the-column-is-chosen', z3.BoolVal(False))]
        n = col_().n
        js = ch.idx
        g += [('choose:chosen-entry-is-live', z3.And(0 <= js, js < n, z3.Not(stp(js)))),
              ('choose:no-live-entry-is-preferable', z3.ForAll([jq], z3.Implies(z3.And(0 <= jq, jq < n, z3.Not(stp(jq))), better_or_equal(js, jq)))),
              ('choose:first-listed-among-equals', z3.ForAll([jq], z3.Implies(z3.And(0 <= jq, jq < js, z3.Not(stp(jq))), z3.Not(better_or_equal(jq, js)))))]
        return g

    def goals(ctx, res):
        # returned without choosing: only when the column has no live entry
        return [('choose:none-only-if-no-live-entry', z3.And(b2z(res is None), z3.ForAll([jq], z3.Implies(z3.And(0 <= jq, jq < col_().n), stp(jq)))))]
    rep = verify_function(prog, fv, setup, goals, models=models, hooks=hk, contracts=contracts, loops=loops, end_goals=end_goals,
                          name=f"BaseMatcher._build_node_path(choice of the final entry)[last_is_e={last_is_e}]")
    return fv, rep


# =============================================================================================== _build_node_path: the returned sequence
StateKey = z3.DeclareSort('StateKey')          # shortkey of a lattice entry (a node label or an edge): equality only


class KeyList:
    """sequence of state keys of symbolic length n: element i is sel(i)"""
    def __init__(self, name, n, sel, of=None):
        self.name, self.n, self.sel, self.of = name, n, sel, of

    def __repr__(self):
        return f"<KeyList {self.name}>"


class EntryList:
    """the back-tracked sequence of lattice entries (result of _build_matching_path): only the state key of an entry is read"""
    def __init__(self, name, n, key):
        self.name, self.n, self.key = name, n, key


def vc_build_node_path_tail(prog, unique=True):
    """What _build_node_path returns, given the back-tracked entry sequence of ARBITRARY length (callee contract of
    _build_matching_path: some sequence of entries): lattice_best is that sequence; the returned state sequence is its
    state keys in order - all of them (unique=False), or with exactly the immediate repetitions removed (unique=True: loop
    invariant prev_node = previous key; a key is appended iff it differs from its predecessor).  C03/C04."""
    from contracts import prune as P
    fv = prog.func(K.BASE, 'BaseMatcher._build_node_path')
    st = {}
    start_idx = I('start_idx')
    IntS, RealS, BoolS = z3.IntSort(), z3.RealSort(), z3.BoolSort()
    keyf = z3.Function('lb_key', IntS, StateKey)

    def setup(ctx, it):
        st.clear()
        col = P.fresh_arrlist(ctx, 'col')
        col.fields['obs_ne'] = z3.Array(f"col_ne!{ctx.n}", IntS, IntS)
        ctx.assume(col.n >= 0)
        matcher = K.mk_matcher('BaseMatcher')
        matcher.f['lattice'] = Obj('Lattice')
        matcher.f['lattice_best'] = None
        matcher.f['node_path'] = None
        st.update(col=col, matcher=matcher)
        return [matcher, start_idx], {'unique': unique}

    def c_build_matching_path(it, fv_, args, kw):
        n = it.ctx.fresh('lb_n', 'I')
        it.ctx.assume(n >= 1)          # the chosen entry itself is always part of the sequence
        st['lb'] = EntryList('lattice_best', n, keyf)
        st['lb_args'] = args
        return st['lb']

    hk, mods = P.hooks(prog, st)
    hk = dict(hk)
    hk[('index', 'Lattice')] = lambda it, o, i: Obj('Column', idx=i)
    hk[('indexed', 'ArrList')] = lambda it, a: (a.n, lambda i: P.ElemRef(a, i))
    hk[('indexed', 'KeyList')] = lambda it, a: (a.n, lambda i: a.sel(i))

    def h_getattr(it, ref, attr):
        if attr in ref.arr.fields:
            return z3.Select(ref.arr.fields[attr], ref.idx)
        raise Unsupported(f"entry attribute {attr}")
    hk[('getattr', 'ElemRef')] = h_getattr

    def h_compr(it, src, gen, e, env, kind):
        import ast
        # [m.shortkey for m in <entry sequence>]
        if kind == 'list' and isinstance(e.elt, ast.Attribute) and isinstance(e.elt.value, ast.Name) and isinstance(gen.target, ast.Name) \
                and e.elt.value.id == gen.target.id and e.elt.attr == 'shortkey' and not gen.ifs:
            kl = KeyList('node_path', src.n, src.key, of=src)
            st['keys'] = kl
            return kl
        raise Unsupported("comprehension over the back-tracked sequence other than its state keys")
    hk[('comprehension', 'EntryList')] = h_compr
    models = dict(K.base_models())
    models[('meth', 'Column', 'values_all')] = Model('LatticeColumn.values_all', lambda it, c: st['col'])
    contracts = {'BaseMatcher._build_matching_path': c_build_matching_path}

    # --- the choice loops (proved in vc_build_node_path_choice): here only what the tail needs - some entry or None
    def choice_havoc(it, env, pre):
        if it.ctx.choice(2, 'node_max-none') == 0:
            env['node_max'] = None
        else:
            env['node_max'] = P.ElemRef(st['col'], it.ctx.fresh('jstar', 'I'))
        if 'node_max_ne' in env:
            env['node_max_ne'] = it.ctx.fresh('nm_ne', 'I')

    # --- the unique loop
    def u_inv(it, env):
        k = env['$idx']
        pv = env.get('prev_node')
        if pv is None:
            return [('no-previous-key-only-before-the-first-element', k == 0)]
        if not (z3.is_expr(pv) and pv.sort() == StateKey):
            return [('previous-key-is-a-state-key', z3.BoolVal(False))]
        return [('previous-key-is-the-preceding-element', z3.And(k >= 1, pv == keyf(k - 1)))]

    def u_havoc(it, env, pre):
        if it.ctx.choice(2, 'prev-none') == 0:
            env['prev_node'] = None
        else:
            env['prev_node'] = it.ctx.fresh('prev_key', StateKey)

    def u_body_post(it, env, pre, elem, events, how):
        apps = [e for e in events if e.kind == 'append']
        k = env['$idx'] - 1            # the engine has advanced the index past this iteration
        acc = st['matcher'].f.get('node_path')
        ok_target = all(e.acc is acc for e in apps) and isinstance(acc, Accum)
        it.ctx.oblige("unique:appends-go-to-the-returned-list", b2z(ok_target), kind='post')
        first_or_changed = z3.Or(k == 0, keyf(k) != keyf(k - 1))
        it.ctx.oblige("unique:a-key-is-kept-iff-it-differs-from-its-predecessor",
                      first_or_changed if len(apps) == 1 else (z3.Not(first_or_changed) if len(apps) == 0 else z3.BoolVal(False)), kind='post')
        if len(apps) == 1:
            it.ctx.oblige("unique:the-kept-key-is-the-current-element", b2z(eq(apps[0].value, keyf(k))), kind='post')
    import ast
    loops_ast = sorted([x for x in ast.walk(fv.node) if isinstance(x, (ast.For, ast.While))], key=lambda x: (x.lineno, x.col_offset))
    loops = {}
    for i, x in enumerate(loops_ast):
        if isinstance(x, ast.For) and 'values_all' in ast.unparse(x.iter):
            loops[(fv.qual, i)] = {'havoc': choice_havoc}
        elif isinstance(x, ast.For) and 'prev_node' in ast.unparse(x):
            loops[(fv.qual, i)] = {'inv': u_inv, 'havoc': u_havoc, 'body_post': u_body_post}

    def goals(ctx, res):
        m = st['matcher']
        if 'lb' not in st:
            return [('tail:none-only-without-a-final-entry', b2z(res is None))]
        g = [('tail:lattice_best-is-the-back-tracked-sequence', b2z(m.f.get('lattice_best') is st['lb'])),
             ('tail:back-tracking-starts-from-the-chosen-entry', b2z(len(st['lb_args']) >= 2 and isinstance(st['lb_args'][1], P.ElemRef))),
             ('tail:result-is-stored-as-node_path', b2z(res is m.f.get('node_path')))]
        if unique:
            g.append(('tail:unique-result-is-the-accumulated-list-starting-empty', b2z(isinstance(res, Accum) and len(res.init) == 0)))
        else:
            g.append(('tail:all-state-keys-in-order', b2z(isinstance(res, KeyList) and res.of is st['lb'] and res.sel is keyf)))
        return g
    rep = verify_function(prog, fv, setup, goals, models=models, hooks=hk, contracts=contracts, loops=loops,
                          name=f"BaseMatcher._build_node_path(returned sequence)[unique={unique}]")
    return fv, rep


# =============================================================================================== _build_matching_path: back-tracking
class PrevSeq:
    """the predecessor collection of entry number `of`, listed in some fixed order: element j is entry prev_at(of, j)"""
    def __init__(self, of):
        self.of = of


def vc_build_matching_path(prog, depth_given=False):
    """Back-tracking over predecessor links for a chain of ARBITRARY length and predecessor sets of arbitrary size.
    Entries are numbered (array model E: logprob, obs_ne); prev(i) = [prev_at(i, 0), ..., prev_at(i, prev_n(i)-1)].
    Inner loop: inductive arg-max invariant.  Outer loop, per iteration: exactly one entry is
    appended, it is a most probable member of prev(current entry) and becomes the current entry; the emitting-depth counter
    grows by one exactly for emitting entries; the loop body cannot break when the predecessor set is non-empty.  The result
    is the accumulated list reversed, starting from the given entry.  (C02, C03, C04: the reported path follows the stored
    predecessor links; termination is not proved.)"""
    from contracts import prune as P
    fv = prog.func(K.BASE, 'BaseMatcher._build_matching_path')
    st = {}
    IntS, RealS, BoolS = z3.IntSort(), z3.RealSort(), z3.BoolSort()
    prev_n = z3.Function('prev_n', IntS, IntS)
    inner_target = 'prev_m'
    prev_at = z3.Function('prev_at', IntS, IntS, IntS)
    jq = z3.Int('j!bt')

    def setup(ctx, it):
        st.clear()
        E = P.ArrList('E', ctx.fresh('E_n', 'I'), {'logprob': z3.Array(f"E_lp!{ctx.n}", IntS, RealS),
                                                   'obs_ne': z3.Array(f"E_ne!{ctx.n}", IntS, IntS),
                                                   'obs': z3.Array(f"E_obs!{ctx.n}", IntS, IntS)})
        s = ctx.fresh('start', 'I')
        ctx.assume(0 <= s, s < E.n)
        # well-formed lattice (C09): predecessor numbers are entries, sizes are non-negative
        iq = z3.Int('i!bt')
        ctx.assume(z3.ForAll([iq], prev_n(iq) >= 0),
                   z3.ForAll([iq, jq], z3.Implies(z3.And(0 <= iq, iq < E.n, 0 <= jq, jq < prev_n(iq)),
                                                  z3.And(0 <= prev_at(iq, jq), prev_at(iq, jq) < E.n))))
        matcher = K.mk_matcher('BaseMatcher')
        matcher.f['lattice'] = Obj('Lattice')
        st.update(E=E, s=s, matcher=matcher, start=P.ElemRef(E, s), inner_target=inner_target)
        md = ctx.fresh('max_depth', 'I') if depth_given else None
        return [matcher, st['start']], {'max_depth': md}

    lp = lambda i: z3.Select(st['E'].fields['logprob'], i)
    ne = lambda i: z3.Select(st['E'].fields['obs_ne'], i)

    def h_getattr(it, ref, attr):
        if attr in ref.arr.fields:
            return z3.Select(ref.arr.fields[attr], ref.idx)
        if attr == 'prev':
            return PrevSeq(ref.idx)
        r = prog.find_member('BaseMatching', attr)
        if r and isinstance(r[0], __import__('ast').FunctionDef):
            fvm = FuncVal(r[0], prog.classes[r[1]][1], r[1])
            if any(isinstance(d, __import__('ast').Name) and d.id == 'property' for d in r[0].decorator_list):
                return it.call_fn(fvm, [ref], {}, force_inline=True)
            return Bound(fvm, ref)
        raise Unsupported(f"entry attribute {attr}")
    hooks = {('getattr', 'ElemRef'): h_getattr,
             ('len', 'PrevSeq'): lambda it, p: prev_n(p.of),
             ('len', 'Lattice'): lambda it, o: lat_len(it),
             ('indexed', 'PrevSeq'): lambda it, p: (prev_n(p.of), lambda j: P.ElemRef(st['E'], prev_at(p.of, j))),
             ('reversed', 'Accum'): lambda it, a: Obj('Reversed', of=a),
             ('list', 'Obj'): lambda it, o: o}

    def lat_len(it):
        if 'lat_n' not in st:
            st['lat_n'] = it.ctx.fresh('lat_n', 'I')
            it.ctx.assume(st['lat_n'] >= 0)
        return st['lat_n']

    def cur_idx(env, name='node_max'):
        v = env.get(name)
        return v.idx if isinstance(v, P.ElemRef) and v.arr is st['E'] else None

    # ---- outer while loop
    def w_inv(it, env):
        c = cur_idx(env)
        if c is None:
            return [('current-entry-is-an-entry', z3.BoolVal(False))]
        out = [('current-entry-is-an-entry', z3.And(0 <= c, c < st['E'].n)), ('depth-counter-non-negative', to_z3(env['cur_depth']) >= 0)]
        return out

    def w_havoc(it, env, pre):
        env['node_max'] = P.ElemRef(st['E'], it.ctx.fresh('cur', 'I'))
        env['cur_depth'] = it.ctx.fresh('cur_depth', 'I')
        st['head'] = (env['node_max'].idx, env['cur_depth'])

    def w_body_post(it, env, pre, elem, events, how):
        c0, d0 = st['head']
        apps = [e for e in events if e.kind == 'append' and len(e.loops) >= 1]
        if how == 'break':
            it.ctx.oblige("chain:no-break-while-predecessors-exist", z3.BoolVal(False), kind='post')
            return
        it.ctx.oblige("chain:exactly-one-entry-appended-per-step", b2z(len(apps) == 1), kind='post')
        if len(apps) != 1:
            return
        a = apps[0].value
        ok = isinstance(a, P.ElemRef) and a.arr is st['E']
        it.ctx.oblige("chain:appended-entry-becomes-the-current-entry", b2z(ok and env.get('node_max') is a), kind='post')
        if not ok:
            return
        jm = z3.Int('jm!bt')
        it.ctx.oblige("chain:appended-entry-is-a-stored-predecessor-of-the-current-entry",
                      z3.Exists([jm], z3.And(0 <= jm, jm < prev_n(c0), prev_at(c0, jm) == a.idx)), kind='post')
        it.ctx.oblige("chain:appended-entry-is-a-most-probable-predecessor",
                      z3.ForAll([jq], z3.Implies(z3.And(0 <= jq, jq < prev_n(c0)), lp(prev_at(c0, jq)) <= lp(a.idx))), kind='post')
        it.ctx.oblige("chain:depth-counts-emitting-entries", to_z3(env['cur_depth']) == d0 + z3.If(ne(a.idx) == 0, 1, 0), kind='post')

    # ---- inner for loop: arg-max with first-of-equals
    def f_inv(it, env):
        k = env['$idx']
        nm = env.get('node_max')
        last = cur_idx(env, 'node_max_last')
        if last is None:
            return [('scanned-entry-is-an-entry', z3.BoolVal(False))]
        if nm is None:
            return [('no-candidate-only-before-the-first-element', k == 0)]
        if not (isinstance(nm, P.ElemRef) and nm.arr is st['E']):
            return [('candidate-is-an-entry', z3.BoolVal(False))]
        js = st.get('jstar')
        if env.get(st.get('inner_target', 'prev_m')) is nm:
            js = k - 1          # ghost witness: the body has just replaced the candidate by this iteration's element
        if js is None:
            return [('candidate-is-a-scanned-predecessor', z3.BoolVal(False))] if False else \
                [('candidate-is-best-so-far', z3.And(z3.Exists([jq], z3.And(0 <= jq, jq < k, prev_at(last, jq) == nm.idx)),
                                                    z3.ForAll([jq], z3.Implies(z3.And(0 <= jq, jq < k), lp(prev_at(last, jq)) <= lp(nm.idx)))))]
        # (which of several equally probable predecessors is taken is left open: predecessor sets hold one entry in practice)
        return [('candidate-is-best-so-far', z3.And(0 <= js, js < k, prev_at(last, js) == nm.idx,
                                                   z3.ForAll([jq], z3.Implies(z3.And(0 <= jq, jq < k), lp(prev_at(last, jq)) <= lp(nm.idx)))))]

    def f_havoc(it, env, pre):
        if it.ctx.choice(2, 'cand-none') == 0:
            env['node_max'] = None
            st['jstar'] = None
        else:
            js = it.ctx.fresh('jstar', 'I')
            st['jstar'] = js
            last = cur_idx(env, 'node_max_last')
            env['node_max'] = P.ElemRef(st['E'], prev_at(last, js) if last is not None else it.ctx.fresh('x', 'I'))

    def f_body_post(it, env, pre, elem, events, how):
        # ghost update of the witness index: when the body replaced the candidate, the witness is this element's position
        nm = env.get('node_max')
        k = env['$idx'] - 1
        if isinstance(nm, P.ElemRef) and isinstance(elem, P.ElemRef) and nm is elem:
            st['jstar'] = k
    import ast
    loops_ast = sorted([x for x in ast.walk(fv.node) if isinstance(x, (ast.For, ast.While))], key=lambda x: (x.lineno, x.col_offset))
    loops = {}
    for i, x in enumerate(loops_ast):
        if isinstance(x, ast.While):
            loops[(fv.qual, i)] = {'inv': w_inv, 'havoc': w_havoc, 'body_post': w_body_post, 'allow_break': True}
        elif isinstance(x, ast.For) and 'prev' in ast.unparse(x.iter):
            loops[(fv.qual, i)] = {'inv': f_inv, 'havoc': f_havoc, 'body_post': f_body_post}
            inner_target = x.target.id if isinstance(x.target, ast.Name) else 'prev_m'

    def goals(ctx, res):
        g = [('chain:result-is-the-accumulated-list-reversed', b2z(isinstance(res, Obj) and res.cls == 'Reversed' and isinstance(res.f.get('of'), Accum)))]
        if isinstance(res, Obj) and res.cls == 'Reversed' and isinstance(res.f.get('of'), Accum):
            acc = res.f['of']
            g.append(('chain:starts-from-the-given-entry', b2z(len(acc.init) == 1 and acc.init[0] is st['start'])))
        return g
    rep = verify_function(prog, fv, setup, goals, models=K.base_models(), hooks=hooks, loops=loops,
                          name=f"BaseMatcher._build_matching_path[max_depth {'given' if depth_given else 'None'}]")
    return fv, rep


# ============================================================================================ BaseMatcher.node_path_to_only_nodes
def vc_only_nodes(prog, allow_jumps=False, walk=False):
    """BaseMatcher.node_path_to_only_nodes for a state sequence of ARBITRARY length whose elements are node labels or edges
    (pairs of labels), in any mix (C04: the nodes-only view of a walk is the walk's node sequence).  Foreach rule with the loop
    invariant `prev_state = preceding element`; per element, for an ARBITRARY last output node p:
      * a state equal to its predecessor adds nothing (a stay is not a move),
      * a node state adds itself iff it differs from p,
      * an edge attached to p adds exactly its other end (nothing for a self-loop), whichever way round the edge is stored,
      * an edge not attached to p: the documented exception without allow_jumps, both ends in order with allow_jumps,
      * prev_node is the last node of the output afterwards (the invariant the next element relies on),
    and the output starts with the node / both ends of the first state.

    walk=True is the lemma behind the last sentence of C04: REQUIRES every edge state to be an edge of the map (adj) and every
    consecutive pair of states to be the same state or a move the map offers without linked parallel edges (node -> adjacent
    node, node -> edge leaving it, edge -> edge leaving its end node, edge -> its end node); ENSURES the view is computable (no
    path raises) and every node added is adjacent to - and different from - the node before it in the output.  Additional loop
    invariant: prev_node is the END node of the preceding state."""
    fv = prog.func(K.BASE, 'BaseMatcher.node_path_to_only_nodes')
    st = {}
    IntS, BoolS = z3.IntSort(), z3.BoolSort()
    isn = z3.Function('state_is_node', IntS, BoolS)
    sa, sb = z3.Function('state_l1', IntS, Label), z3.Function('state_l2', IntS, Label)
    n = I('len_state_path')

    def elem(it, j, tag):
        j = to_z3(j)
        if it.ctx.choice(2, tag + '-is-edge') == 0:
            it.ctx.assume(isn(j))
            return sa(j)
        it.ctx.assume(z3.Not(isn(j)))
        return (sa(j), sb(j))

    def same_as(x, j):
        """value equality of an interpreter value with element j of the sequence"""
        j = to_z3(j)
        if isinstance(x, tuple) and len(x) == 2 and all(z3.is_expr(v) and v.sort() == Label for v in x):
            return z3.And(z3.Not(isn(j)), x[0] == sa(j), x[1] == sb(j))
        if z3.is_expr(x) and x.sort() == Label:
            return z3.And(isn(j), x == sa(j))
        return z3.BoolVal(False)

    def end_of(j):
        j = to_z3(j)
        return z3.If(isn(j), sa(j), sb(j))

    def is_walk_step(k):
        """element k+1 is the same state as element k or a move the map offers from it (no linked parallel edges, no jumps)"""
        k = to_z3(k)
        j = k + 1
        same = z3.Or(z3.And(isn(j), isn(k), sa(j) == sa(k)), z3.And(z3.Not(isn(j)), z3.Not(isn(k)), sa(j) == sa(k), sb(j) == sb(k)))
        move = z3.If(isn(j), z3.If(isn(k), adj(sa(k), sa(j)), sa(j) == sb(k)), sa(j) == end_of(k))
        return z3.Or(same, move)

    def setup(ctx, it):
        st.clear()
        ctx.assume(n >= 1)
        if walk:
            q = z3.Int('q!w')
            ctx.assume(z3.ForAll([q], z3.Implies(z3.And(0 <= q, q < n, z3.Not(isn(q))), adj(sa(q), sb(q)))))
            ctx.assume(z3.ForAll([q], z3.Implies(z3.And(0 <= q, q + 1 < n), is_walk_step(q))))
        m = K.mk_matcher('BaseMatcher')
        sp = Obj('StatePath')
        st.update(m=m, sp=sp)
        return [m, sp], {'allow_jumps': allow_jumps}

    def h_index(it, o, i):
        return elem(it, i, 'first' if eq(to_z3(i), z3.IntVal(0)) is True or z3.is_true(z3.simplify(to_z3(i) == 0)) else 'indexed')

    def h_slice(it, o, lo, hi):
        if not (isinstance(o, Obj) and o.cls == 'StatePath') or hi is not None or lo is None or not z3.is_true(z3.simplify(to_z3(lo) == 1)):
            raise Unsupported("slice of the state sequence other than [1:]")
        return Obj('StateTail')

    def h_indexed(it, o):
        if not (isinstance(o, Obj) and o.cls == 'StateTail'):
            raise Unsupported(f"iteration over {o}")
        return n - 1, (lambda k: elem(it, k + 1, 'state'))

    def l_init(it, env):
        ps, pn, nodes = env.get('prev_state'), env.get('prev_node'), env.get('nodes')
        g = [('prev_state-starts-as-the-first-state', same_as(ps, 0))]
        first_nodes = [ps] if not isinstance(ps, tuple) else list(ps)
        g.append(('output-starts-with-the-node-or-both-ends-of-the-first-state',
                  b2z(isinstance(nodes, list) and len(nodes) == len(first_nodes) and all(eq(x, y) is True for x, y in zip(nodes, first_nodes)))))
        g.append(('prev_node-starts-as-the-last-node-of-the-output', b2z(isinstance(nodes, list) and len(nodes) >= 1 and eq(pn, nodes[-1]) is True)))
        if walk:
            g.append(('walk:prev_node-starts-as-the-end-node-of-the-first-state', (pn == end_of(0)) if (z3.is_expr(pn) and pn.sort() == Label) else z3.BoolVal(False)))
            okl = isinstance(nodes, list) and all(z3.is_expr(v) and v.sort() == Label for v in nodes)
            g.append(('walk:first-nodes-are-adjacent', zand(*[adj(x, y) for x, y in zip(nodes, nodes[1:])]) if okl else z3.BoolVal(False)))
        return g

    def l_inv(it, env):
        g = [('prev_state-is-the-preceding-element', same_as(env.get('prev_state'), env['$idx']))]
        if walk:
            pn = env.get('prev_node')
            g.append(('walk:prev_node-is-the-end-node-of-the-preceding-state', (pn == end_of(env['$idx'])) if (z3.is_expr(pn) and pn.sort() == Label) else z3.BoolVal(False)))
        return g

    def l_havoc(it, env, pre):
        k = env['$idx']
        env['prev_state'] = elem(it, k, 'prev')
        env['prev_node'] = st['p'] = it.ctx.fresh('last_output_node', Label)
        st['k'] = k
        it.ctx.only_nodes_state = (st['p'], k)      # raises_ok runs after the exploration: per-path state lives on the path's context

    def l_body_post(it, env, pre, x, events, how):
        apps = [e for e in events if e.kind == 'append']
        acc = env.get('nodes')
        p, k = st['p'], st['k']
        j = k + 1
        a, b = sa(j), sb(j)
        same = z3.Or(z3.And(isn(j), isn(k), sa(j) == sa(k)), z3.And(z3.Not(isn(j)), z3.Not(isn(k)), sa(j) == sa(k), sb(j) == sb(k)))
        attached = z3.Or(a == p, b == p)
        other = z3.If(a == p, b, a)
        want = z3.If(same, 0, z3.If(isn(j), z3.If(a != p, 1, 0), z3.If(attached, z3.If(other != p, 1, 0), 2)))
        ob = lambda nm, g: it.ctx.oblige('only-nodes:' + nm, b2z(g), kind='post')
        ob('appends-go-to-the-returned-list', isinstance(acc, Accum) and all(e.acc is acc for e in apps))
        ob('number-of-nodes-added(stay: none; node: itself iff new; attached edge: the other end iff it moves; jump: both ends)', want == len(apps))
        vals = [e.value for e in apps]
        okv = all(z3.is_expr(v) and v.sort() == Label for v in vals)
        ob('added-values-are-node-labels', okv)
        if okv and len(vals) == 1:
            ob('the-added-node-is-the-node-state-or-the-other-end-of-the-attached-edge', vals[0] == z3.If(isn(j), a, other))
        if okv and len(vals) == 2:
            ob('a-jump-adds-both-ends-in-the-stored-order', z3.And(vals[0] == a, vals[1] == b))
            ob('a-jump-only-when-allowed', bool(allow_jumps))
        pn = env.get('prev_node')
        last = vals[-1] if (okv and vals) else p
        ob('prev_node-is-the-last-node-of-the-output', z3.is_expr(pn) and pn.sort() == Label and (pn == last))
        if walk and okv:
            seq = [p] + vals
            it.ctx.oblige('walk:every-added-node-is-adjacent-to-its-predecessor-in-the-output', b2z(zand(*[adj(x, y) for x, y in zip(seq, seq[1:])])), kind='post')
            it.ctx.oblige('walk:no-immediate-repeats', b2z(zand(*[x != y for x, y in zip(seq, seq[1:])])), kind='post')
            it.ctx.oblige('walk:no-jump-on-a-walk', b2z(len(vals) <= 1), kind='post')

    def raises_ok(ex, ctx):
        # the documented exception: an edge that is not attached to the last node, jumps not allowed
        if walk or allow_jumps or 'does not have as previous node' not in ex.msg or not hasattr(ctx, 'only_nodes_state'):
            return False
        p, k = ctx.only_nodes_state
        j = k + 1
        s = z3.Solver()
        s.set('timeout', 5000)
        s.add(*[to_z3(c) for c in ctx.pc])
        s.add(z3.Or(isn(j), sa(j) == p, sb(j) == p, z3.And(z3.Not(isn(k)), sa(j) == sa(k), sb(j) == sb(k))))
        return s.check() == z3.unsat
    import ast
    loops_ast = sorted([x for x in ast.walk(fv.node) if isinstance(x, (ast.For, ast.While))], key=lambda x: (x.lineno, x.col_offset))
    loops = {(fv.qual, i): {'init': l_init, 'inv': l_inv, 'havoc': l_havoc, 'body_post': l_body_post} for i, x in enumerate(loops_ast)}

    def goals(ctx, res):
        return [('only-nodes:result-is-the-accumulated-list', b2z(isinstance(res, Accum) and len(res.appended) == 0)),
                ('only-nodes:exactly-one-loop-over-the-rest-of-the-sequence', b2z(len(loops_ast) == 1 and any(e.kind == 'loop-range' and eq(to_z3(e.lo), z3.IntVal(0)) is not False for e in ctx.events)))]
    hooks = {('index', 'StatePath'): h_index, ('slice', 'Obj'): h_slice, ('indexed', 'Obj'): h_indexed}
    rep = verify_function(prog, fv, setup, goals, models=dict(K.base_models()), hooks=hooks, loops=loops, raises_ok=raises_ok,
                          name=f"BaseMatcher.node_path_to_only_nodes[{'jumps allowed' if allow_jumps else 'no jumps'}{', walk' if walk else ''}]")
    return fv, rep


# ============================================================================================ BaseMatcher.get_path + the two properties
def vc_get_path(prog, only_nodes=True, only_closest=True, stored='states'):
    """BaseMatcher.get_path (C04: the nodes-only view a user reads, `path_pred_onlynodes`): with only_nodes=False the stored state
    sequence itself; without a match (None / empty) the empty list; otherwise exactly ONE call of node_path_to_only_nodes on the
    STORED state sequence with the caller's allow_jumps, whose list is returned; the only edit of that list: with only_closest the
    FIRST node is dropped iff the first matched position lies beyond the middle of its edge (ti > 0.5) - nothing else is removed,
    the stored sequence and the best path are not written.  node_path_to_only_nodes is a callee contract here (proved for its own
    body in vc_only_nodes)."""
    fv = prog.func(K.BASE, 'BaseMatcher.get_path')
    st = {}
    aj = B('allow_jumps')

    def setup(ctx, it):
        st.clear()
        m = K.mk_matcher('BaseMatcher')
        seq = {'none': None, 'empty': [], 'states': Obj('StateSeq')}[stored]
        m.f['node_path'] = seq
        # the first matched state is a node (a point segment: relative position 0 by the real Segment.ti) or an edge with a projection
        node_first = ctx.choice(2, 'first-state-is-a-node') == 1
        seg = K.mk_segment('first', node_first, with_proj=True)
        first = Obj('Entry', edge_m=seg)
        m.f['lattice_best'] = Obj('BestList', first=first)
        st['ti'] = z3.RealVal(0) if node_first else seg.f['_ti']
        ctx.assume(st['ti'] >= 0, st['ti'] <= 1)
        st.update(m=m, seq=seq, calls=[], pops=[], pre=dict(m.f))
        return [m], {'only_nodes': only_nodes, 'allow_jumps': aj, 'only_closest': only_closest}

    def c_only_nodes(it, fv_, args, kw):
        b = {'allow_jumps': False}
        b.update(dict(zip(('path', 'allow_jumps'), args[1:])))
        b.update(kw)
        st['calls'].append((args[0], b))
        st['res'] = Obj('NodeList')
        return st['res']

    def m_pop(it, o, *a):
        st['pops'].append((o, a))
        return it.ctx.fresh('popped', Label)

    def h_index_best(it, o, i):
        if z3.is_true(z3.simplify(to_z3(i) == 0)):
            return o.f['first']
        # any other entry of the best path: an entry of its own, with a relative position of its own
        key = z3.simplify(to_z3(i)).sexpr()
        if key not in o.f.setdefault('others', {}):
            o.f['others'][key] = Obj('Entry', edge_m=K.mk_segment('other' + str(len(o.f['others'])), False, with_proj=True))
        return o.f['others'][key]
    models = dict(K.base_models())
    models[('meth', 'NodeList', 'pop')] = Model('list.pop', m_pop)
    hooks = {('len', 'StateSeq'): lambda it, o: (lambda v: (it.ctx.assume(v >= 1), v)[1])(it.ctx.fresh('len_states', 'I')), ('index', 'BestList'): h_index_best}

    def goals(ctx, res):
        m, calls, pops = st['m'], st['calls'], st['pops']
        g = [('get-path:stored-sequence-and-best-path-not-written', b2z(all(k in m.f and m.f[k] is st['pre'][k] for k in st['pre'])))]
        if not only_nodes:
            g.append(('get-path:all-states-is-the-stored-sequence', b2z(res is st['seq'] and not calls and not pops)))
            return g
        if stored != 'states':
            g.append(('get-path:no-match-gives-the-empty-list', b2z(isinstance(res, list) and len(res) == 0 and not calls and not pops)))
            return g
        g.append(('get-path:one-conversion-of-the-stored-sequence', b2z(len(calls) == 1 and calls[0][0] is m and calls[0][1].get('path') is st['seq'])))
        g.append(('get-path:jump-permission-is-the-callers', b2z(len(calls) == 1 and calls[0][1].get('allow_jumps') is aj and set(calls[0][1]) == {'path', 'allow_jumps'})))
        g.append(('get-path:result-is-the-converted-list', b2z(res is st.get('res'))))
        if only_closest:
            ok_shape = all(o is st.get('res') and len(a) == 1 and z3.is_true(z3.simplify(to_z3(a[0]) == 0)) for o, a in pops) and len(pops) <= 1
            g.append(('get-path:only-the-first-node-may-be-dropped', b2z(ok_shape)))
            # what C04 needs: whatever is dropped is dropped at an END of the converted list (a contiguous part of a pairwise
            # adjacent sequence is pairwise adjacent); which end and when is the stricter pair of clauses around this one
            at_end = lambda a: len(a) == 0 or (len(a) == 1 and (z3.is_true(z3.simplify(to_z3(a[0]) == 0)) or z3.is_true(z3.simplify(to_z3(a[0]) == -1))))
            g.append(('get-path:nodes-are-dropped-only-at-the-ends-of-the-converted-list', b2z(all(o is st.get('res') and at_end(a) for o, a in pops))))
            g.append(('get-path:first-node-dropped-iff-the-first-match-lies-beyond-the-middle-of-its-edge', (st['ti'] > 0.5) if len(pops) == 1 else z3.Not(st['ti'] > 0.5)))
        else:
            g.append(('get-path:nothing-dropped-without-only_closest', b2z(not pops)))
        return g
    rep = verify_function(prog, fv, setup, goals, models=models, hooks=hooks, contracts={'BaseMatcher.node_path_to_only_nodes': c_only_nodes},
                          name=f"BaseMatcher.get_path[only_nodes={only_nodes}, only_closest={only_closest}, stored={stored}]")
    return fv, rep


def vc_path_pred_props(prog, withjumps=False):
    """The properties path_pred_onlynodes / path_pred_onlynodes_withjumps: get_path(only_nodes=True) with allow_jumps False / True
    and the default only_closest; the result is handed on unchanged."""
    nm = 'path_pred_onlynodes_withjumps' if withjumps else 'path_pred_onlynodes'
    fv = prog.func(K.BASE, 'BaseMatcher.' + nm)
    st = {}

    def setup(ctx, it):
        st.clear()
        m = K.mk_matcher('BaseMatcher')
        st.update(m=m, calls=[], pre=dict(m.f))
        return [m], {}

    def c_get_path(it, fv_, args, kw):
        b = {'only_nodes': True, 'allow_jumps': False, 'only_closest': True}
        b.update(dict(zip(('only_nodes', 'allow_jumps', 'only_closest'), args[1:])))
        b.update(kw)
        st['calls'].append((args[0], b))
        st['res'] = Obj('NodeList')
        return st['res']

    def goals(ctx, res):
        c = st['calls']
        ok = len(c) == 1 and c[0][0] is st['m'] and c[0][1].get('only_nodes') is True and set(c[0][1]) == {'only_nodes', 'allow_jumps', 'only_closest'}
        okj = len(c) == 1 and c[0][1].get('allow_jumps') is withjumps and c[0][1].get('only_closest') is True
        return [('get-path:property-is-one-nodes-only-view-of-this-matcher', b2z(ok)),
                ('get-path:jump-permission-of-the-property-' + ('jumps-allowed' if withjumps else 'no-jumps'), b2z(okj)),
                ('get-path:property-hands-the-list-on', b2z(res is st.get('res'))),
                ('get-path:property-writes-nothing', b2z(all(k in st['m'].f and st['m'].f[k] is st['pre'][k] for k in st['pre'])))]
    rep = verify_function(prog, fv, setup, goals, models=dict(K.base_models()), contracts={'BaseMatcher.get_path': c_get_path}, name=f"BaseMatcher.{nm}")
    return fv, rep
