"""K-prune: LatticeColumn.prune over a layer of ARBITRARY size.  The layer's entries are modelled as parallel z3
arrays (logprob, stop, delayed) indexed by position; `sorted` is an assumed contract (permutation ordered by the key);
the two while-loops carry inductive invariants, the two assignment loops the foreach rule with a per-element spec."""
import z3
from pyvc.values import *
from pyvc.interp import Event, zand, zor, znot, eq, Obligation
from pyvc.verify import verify_function
from pyvc.models import Model, BUILTINS
from contracts import lattice as K

R, I, B = z3.Real, z3.Int, z3.Bool
IntS, RealS, BoolS = z3.IntSort(), z3.RealSort(), z3.BoolSort()


class ArrList:
    def __init__(self, name, n, fields):
        self.name, self.n, self.fields = name, n, dict(fields)

    def __repr__(self):
        return f"<ArrList {self.name}>"


class ElemRef:
    def __init__(self, arr, idx):
        self.arr, self.idx = arr, idx

    def __repr__(self):
        return f"{self.arr.name}[{self.idx}]"


class ArrSlice:
    def __init__(self, arr, lo, hi):
        self.arr, self.lo, self.hi = arr, lo, hi


def fresh_arrlist(ctx, name, n=None):
    n = ctx.fresh(name + '_n', 'I') if n is None else n
    return ArrList(name, n, {'logprob': z3.Array(f"{name}_pv!{ctx.n}", IntS, RealS),
                             'stop': z3.Array(f"{name}_stop!{ctx.n}", IntS, BoolS),
                             'delayed': z3.Array(f"{name}_delayed!{ctx.n}", IntS, IntS)})


def hooks(prog, st):
    def h_getattr(it, ref, attr):
        if attr in ref.arr.fields:
            return z3.Select(ref.arr.fields[attr], ref.idx)
        r = prog.find_member('BaseMatching', attr, kinds=('getter',))
        if r:
            return it.call_fn(FuncVal(r[0], prog.classes[r[1]][1], r[1]), [ref], {}, force_inline=True)
        raise Unsupported(f"lattice entry attribute {attr} in prune model")

    def h_setattr(it, ref, attr, v):
        if attr not in ref.arr.fields:
            raise Unsupported(f"store to entry attribute {attr} in prune model")
        ref.arr.fields[attr] = z3.Store(ref.arr.fields[attr], ref.idx, to_z3(v))
        it.ctx.events.append(Event('elem-store', arr=ref.arr, idx=ref.idx, attr=attr, value=v))

    def h_comprehension(it, src, gen, e, env, kind):
        # [m for m in <layer> if <cond>]: evaluate the filter on an arbitrary element; the result is a list of entries
        # that all satisfy it (and it is *every* such entry of the layer - semantics of a comprehension, trusted)
        import ast
        if not (isinstance(e.elt, ast.Name) and isinstance(gen.target, ast.Name) and e.elt.id == gen.target.id):
            raise Unsupported("comprehension over a lattice layer that maps its elements")
        k = it.ctx.fresh('k', 'I')
        env2 = dict(env)
        env2[gen.target.id] = ElemRef(src, k)
        cond = zand(*[__import__('pyvc.interp', fromlist=['truth']).truth(it.ctx, it.ev(c, env2)) for c in gen.ifs])
        out = fresh_arrlist(it.ctx, 'live')
        out.filter_of = (src, k, cond)
        j = z3.Int('j!f')
        # every element of the result satisfies the filter (instantiated for the result's own arrays)
        condj = z3.substitute(cond if z3.is_expr(cond) else z3.BoolVal(cond),
                              *[(z3.Select(src.fields[f], k), z3.Select(out.fields[f], j)) for f in src.fields])
        it.ctx.assume(out.n >= 0, z3.ForAll([j], z3.Implies(z3.And(0 <= j, j < out.n), condj)))
        st.setdefault('filters', []).append((src, k, cond, out))
        return out

    def h_len(it, a):
        return a.n

    def h_index(it, a, i):
        i = to_z3(i)
        it.ctx.oblige(f"domain:index-in-range({a.name})", z3.And(0 <= i, i < a.n), kind='domain')
        return ElemRef(a, i)

    def h_slice(it, a, lo, hi):
        lo = z3.IntVal(0) if lo is None else to_z3(lo)
        hi = a.n if hi is None else to_z3(hi)
        it.ctx.oblige(f"domain:slice-bounds-in-range({a.name})", z3.And(0 <= lo, lo <= a.n, 0 <= hi, hi <= a.n), kind='domain')
        return ArrSlice(a, lo, hi)

    def h_iter_slice(it, sl, stn, env, body_cb):
        k = it.ctx.fresh('k', 'I')
        it.ctx.assume(sl.lo <= k, k < sl.hi)
        st['iter_k'] = k
        return body_cb(ElemRef(sl.arr, k))

    def m_sorted(it, a, key=None, reverse=False):
        if not isinstance(a, ArrList):
            raise Unsupported("sorted() of something else than a lattice layer")
        out = fresh_arrlist(it.ctx, 'ms', n=a.n)
        k = it.ctx.fresh('k', 'I')
        keyv = it.call(key, [ElemRef(a, k)], {}) if key is not None else None
        st['sort'] = {'src': a, 'out': out, 'k': k, 'key': keyv, 'reverse': reverse}
        i, j = z3.Ints('i!s j!s')
        # assumed contract of sorted(): same multiset of entries (n equal), ordered by the key; the key expression of the
        # sorted list is the same expression over its own arrays
        if keyv is None or not z3.is_expr(keyv):
            raise Unsupported("sorted() without a symbolic key")
        def key_at(arr, idx):
            return z3.substitute(keyv, *[(z3.Select(a.fields[f], k), z3.Select(arr.fields[f], idx)) for f in a.fields])
        ordered = key_at(out, i) >= key_at(out, j) if (reverse is True) else key_at(out, i) <= key_at(out, j)
        it.ctx.assume(z3.ForAll([i, j], z3.Implies(z3.And(0 <= i, i <= j, j < out.n), ordered)))
        # entries keep their filter property (they are the same objects)
        if hasattr(a, 'filter_of'):
            src, kk, cond = a.filter_of
            jj = z3.Int('j!f2')
            condj = z3.substitute(cond, *[(z3.Select(src.fields[f], kk), z3.Select(out.fields[f], jj)) for f in src.fields])
            it.ctx.assume(z3.ForAll([jj], z3.Implies(z3.And(0 <= jj, jj < out.n), condj)))
        return out
    return {('getattr', 'ElemRef'): h_getattr, ('setattr', 'ElemRef'): h_setattr,
            ('comprehension', 'ArrList'): h_comprehension, ('len', 'ArrList'): h_len, ('index', 'ArrList'): h_index,
            ('slice', 'ArrList'): h_slice, ('iterate', 'ArrSlice'): h_iter_slice}, {'sorted': Model('sorted', m_sorted)}


def vc_prune(prog, with_thr=False, width_none=False):
    fv = prog.func(K.BASE, 'LatticeColumn.prune')
    st = {}
    scen = f"{'thr' if with_thr else 'no-thr'},{'W=None' if width_none else 'W'}"
    W, E, thr = I('W'), I('E'), R('thr')

    def setup(ctx, it):
        keep = {k: st[k] for k in ('loops_ok',) if k in st}
        st.clear()
        st.update(keep)
        layer = fresh_arrlist(ctx, 'layer')
        ctx.assume(layer.n >= 0)
        col = Obj('LatticeColumn', obs_idx=I('col_idx'), o=None)
        st.update(layer=layer, layer0=dict(layer.fields), col=col)
        if not width_none:
            ctx.assume(W >= 1)
        return [col, I('obs_ne'), None if width_none else W, E], {'prune_thr': thr if with_thr else None}

    def m_values(it, o, obs_ne=None):
        return st['layer']
    hk, mods = hooks(prog, st)
    models = dict(K.base_models())
    models.update(mods)
    models[('meth', 'LatticeColumn', 'values')] = Model('LatticeColumn.values', m_values)

    # ---------------- loop specifications (keyed by loop ordinal inside prune)
    def S():
        return st['sort']['out']

    def pv(k):
        return z3.Select(S().fields['logprob'], k)

    kq = z3.Int('k!q')

    def inv_ties(it, env):
        cw, ml = env['cur_width'], env['m_last']
        return [('width-range', z3.And(W <= cw, cw <= S().n)),
                ('m_last-is-last-kept', b2z(isinstance(ml, ElemRef) and ml.arr is S()) if not isinstance(ml, ElemRef) else ml.idx == cw - 1),
                ('extension-only-ties', z3.ForAll([kq], z3.Implies(z3.And(W - 1 <= kq, kq < cw), pv(kq) == pv(W - 1))))]

    def havoc_ties(it, env, pre):
        env['m_last'] = ElemRef(S(), it.ctx.fresh('ml_idx', 'I'))

    def inv_thr(it, env):
        cw = env['cur_width']
        c0 = st['c0']
        return [('width-range', z3.And(0 <= cw, cw <= c0)),
                ('dropped-below-threshold', z3.ForAll([kq], z3.Implies(z3.And(cw <= kq, kq < c0), pv(kq) < thr)))]

    def snapshot_c0(it, env):
        st['c0'] = env['cur_width']
        return []

    def spec_keep(d):
        return z3.If(d > E, E, d)

    def spec_postpone(d):
        return z3.If(d <= E, E + 1, d)

    def mk_assign_loop(which, spec):
        def havoc_exit(it, env, pre, itv):
            a = S()
            old = a.fields['delayed']
            new = z3.Array(f"delayed_after_{which}!{it.ctx.n}", IntS, IntS)
            it.ctx.n += 1
            it.ctx.assume(z3.ForAll([kq], z3.Select(new, kq) == z3.If(z3.And(itv.lo <= kq, kq < itv.hi),
                                                                       spec(z3.Select(old, kq)), z3.Select(old, kq))))
            a.fields['delayed'] = new
            st[f'c_{which}'] = env['cur_width']

        def body_post(it, env, pre, elem, events, how):
            a = elem.arr
            old = st[f'pre_{which}']
            it.ctx.oblige(f"prune:loop-{which}:element-effect", a.fields['delayed'] == z3.Store(old, elem.idx, spec(z3.Select(old, elem.idx))),
                          kind='post')
            it.ctx.oblige(f"prune:loop-{which}:other-fields-untouched",
                          b2z(a.fields['logprob'] is st['pre_pv'] and a.fields['stop'] is st['pre_stop']), kind='post')

        def havoc(it, env, pre):
            st[f'pre_{which}'] = S().fields['delayed']
            st['pre_pv'], st['pre_stop'] = S().fields['logprob'], S().fields['stop']
        return {'havoc': havoc, 'havoc_exit': havoc_exit, 'body_post': body_post}

    def find_loops():
        import ast
        loops = [n for n in ast.walk(fv.node) if isinstance(n, (ast.For, ast.While))]
        loops.sort(key=lambda n: (n.lineno, n.col_offset))
        whiles = [i for i, n in enumerate(loops) if isinstance(n, ast.While)]
        fors = [i for i, n in enumerate(loops) if isinstance(n, ast.For)]
        return whiles, fors
    whiles, fors = find_loops()
    q = fv.qual
    loops = {}
    import ast as _ast
    all_loops = sorted([n for n in _ast.walk(fv.node) if isinstance(n, (_ast.For, _ast.While))], key=lambda n: (n.lineno, n.col_offset))
    # loops are recognised by what they mention, not by their position (harmless reordering must stay green)
    tie = [i for i in whiles if 'len(' in _ast.unparse(all_loops[i].test)]
    thrl = [i for i in whiles if 'prune_thr' in _ast.unparse(all_loops[i].test)]
    keep = [i for i in fors if _ast.unparse(all_loops[i].iter).replace(' ', '').endswith('[:cur_width]')]
    post = [i for i in fors if _ast.unparse(all_loops[i].iter).replace(' ', '').endswith('[cur_width:]')]
    if len(tie) == 1 and len(thrl) == 1 and len(keep) == 1 and len(post) == 1:
        loops[(q, tie[0])] = {'inv': inv_ties, 'havoc': havoc_ties, 'variant': lambda it, env: S().n - env['cur_width']}
        loops[(q, thrl[0])] = {'inv': inv_thr, 'variant': lambda it, env: env['cur_width']}
        loops[(q, keep[0])] = mk_assign_loop('keep', spec_keep)
        loops[(q, post[0])] = mk_assign_loop('postpone', spec_postpone)
        whiles = [tie[0], thrl[0]]
    st['loops_ok'] = len(loops) == 4

    # c0 (tie-extended width) must be captured between the loops: use the first while's exit via a wrapper of inv_thr
    orig_inv_thr = inv_thr

    def inv_thr_wrapped(it, env):
        if 'c0' not in st or st.get('c0_ctx') is not it.ctx:
            st['c0'] = env['cur_width']
            st['c0_ctx'] = it.ctx
        return orig_inv_thr(it, env)
    if (q, whiles[1] if len(whiles) > 1 else -1) in loops:
        loops[(q, whiles[1])]['inv'] = inv_thr_wrapped

    def goals(ctx, res):
        layer, l0 = st['layer'], st['layer0']
        g = [('prune:loop-structure-recognised', b2z(st['loops_ok']))]
        flt = st.get('filters', [])
        if not flt:
            return g + [('prune:live-filter-present', z3.BoolVal(False))]
        src, k, cond, live = flt[0]
        g.append(('prune:live-filter-is-not-stopped', b2z(cond) == z3.Not(z3.Select(src.fields['stop'], k))))
        if 'sort' not in st or st.get('sort_ctx', ctx) is not ctx and False:
            pass
        srt = st.get('sort') if st.get('sort') and st['sort']['out'].name == 'ms' and any(True for _ in [0]) else None
        sorted_here = any(e.kind == 'elem-store' for e in ctx.events) or ('sort' in st and st.get('sort_seen') is ctx)
        if st.get('sort_seen') is not ctx:
            # no sorting on this path: nothing may change, threshold handed back unchanged
            g.append(('prune:small-layer-untouched', b2z(all(layer.fields[f] is l0[f] for f in l0) and
                                                         all(live.fields[f].decl().name().startswith('live') for f in live.fields))))
            g.append(('prune:small-layer-returns-threshold', b2z(eq(res, thr) if with_thr else res is None)))
            g.append(('prune:small-layer-condition', b2z(True if width_none else live.n <= W)))
            return g
        a = st['sort']['out']
        srt = st['sort']
        n = a.n
        g.append(('prune:sort-key-is-prune-value', srt['key'] == z3.Select(srt['src'].fields['logprob'], srt['k'])))
        g.append(('prune:sort-descending', b2z(srt['reverse'] is True)))
        g.append(('prune:sorts-the-live-entries', b2z(srt['src'] is live)))
        g.append(('prune:pruning-condition', n > W))
        c = st.get('c_postpone', st.get('c_keep'))
        if c is None:
            return g + [('prune:assignment-loops-reached', z3.BoolVal(False))]
        D0 = st['pre_keep']
        D1 = a.fields['delayed']
        pvA = a.fields['logprob']
        kk, ii, jj = z3.Ints('k!g i!g j!g')
        g += [
            ('prune:width-range', z3.And(0 <= c, c <= n)),
            ('prune:kept-is-exactly-the-prefix', z3.ForAll([kk], z3.Implies(z3.And(0 <= kk, kk < n), (z3.Select(D1, kk) <= E) == (kk < c)))),
            ('prune:delayed-frame', z3.ForAll([kk], z3.Implies(z3.And(0 <= kk, kk < n), z3.Select(D1, kk) == z3.If(
                kk < c, spec_keep(z3.Select(D0, kk)), spec_postpone(z3.Select(D0, kk)))))),
            ('prune:no-postponed-entry-beats-a-kept-one', z3.ForAll([ii, jj], z3.Implies(z3.And(0 <= ii, ii < c, c <= jj, jj < n),
                                                                                        z3.Select(pvA, ii) >= z3.Select(pvA, jj)))),
            ('prune:scores-and-stop-flags-untouched', b2z(pvA is st['pre_pv'] and a.fields['stop'] is st['pre_stop'])),
            ('prune:returns-score-of-last-kept', z3.If(c > 0, to_z3(res) == z3.Select(pvA, c - 1), b2z(eq(res, thr) if with_thr else res is None))
             if (with_thr or True) and res is not None else z3.BoolVal(c is not None) if False else (c <= 0)),
        ]
        if not with_thr:
            g += [('prune:keeps-at-least-W', c >= W),
                  ('prune:all-ties-with-the-Wth-are-kept', z3.ForAll([kk], z3.Implies(z3.And(c <= kk, kk < n), z3.Select(pvA, kk) < z3.Select(pvA, W - 1)))),
                  ('prune:only-ties-extend-the-width', z3.ForAll([kk], z3.Implies(z3.And(W - 1 <= kk, kk < c), z3.Select(pvA, kk) == z3.Select(pvA, W - 1))))]
        else:
            g += [('prune:last-kept-reaches-threshold', z3.Implies(c > 0, z3.Select(pvA, c - 1) >= thr)),
                  ('prune:dropped-are-below-threshold-or-below-the-Wth', z3.ForAll([kk], z3.Implies(
                      z3.And(c <= kk, kk < n), z3.Or(z3.Select(pvA, kk) < thr, z3.Select(pvA, kk) < z3.Select(pvA, W - 1)))))]
        return g

    # mark sorting per path
    orig_sorted = models['sorted'].fn

    def sorted_marked(it, *a, **kw):
        r = orig_sorted(it, *a, **kw)
        st['sort_seen'] = it.ctx
        return r
    models['sorted'] = Model('sorted', sorted_marked)
    rep = verify_function(prog, fv, setup, goals, models=models, hooks=hk, loops=loops,
                          name=f"LatticeColumn.prune[{scen}]", feas_timeout=1000)
    return fv, rep


def b2z(x):
    return z3.BoolVal(x) if isinstance(x, bool) else x
