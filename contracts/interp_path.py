"""C20: planar interpolate_path (outer foreach over consecutive pairs, inner counted loop with an inductive invariant)."""
import z3
from pyvc.values import *
from pyvc.interp import Event, zand, eq, Obligation
from pyvc.verify import verify_function
from pyvc.models import Model
from contracts import geom_planar as G

MOD = 'leuvenmapmatching.util.dist_euclidean'
R, I = z3.Real, z3.Int
py = z3.Function('path_y', z3.IntSort(), z3.RealSort())
px = z3.Function('path_x', z3.IntSort(), z3.RealSort())


class SymSeq:
    def __init__(self, off=0):
        self.off = off


def b2z(x):
    return z3.BoolVal(x) if isinstance(x, bool) else x


def vc_interpolate_planar(prog):
    prog.load(MOD)
    fv = prog.func(MOD, 'interpolate_path')
    st = {}
    n, dd = I('n'), R('dd')

    def pt(k):
        return (py(k), px(k))

    def setup(ctx, it):
        st.clear()
        ctx.assume(n >= 1, dd > 0)
        return [SymSeq(0), dd], {}

    def h_index(it, s, i):
        return pt(to_z3(i) + s.off)

    def h_slice(it, s, lo, hi):
        if hi is not None:
            raise Unsupported("upper slice bound on the path")
        return SymSeq(s.off + (0 if lo is None else int(lo)))

    def h_iter_zip(it, z, stn, env, body_cb):
        a, b = z[1]
        if not (isinstance(a, SymSeq) and isinstance(b, SymSeq) and a.off == 0 and b.off == 1):
            raise Unsupported("zip over something else than (path, path[1:])")
        k = it.ctx.fresh('seg', 'I')
        it.ctx.assume(k >= 0, k + 1 < n)
        st['k'] = k
        return body_cb((pt(k), pt(k + 1)))
    hooks = {('index', 'SymSeq'): h_index, ('slice', 'SymSeq'): h_slice, ('iterate', 'zip'): h_iter_zip}

    # inner loop (counted): invariant  (px, py) == p1 + idx * (dx, dy)
    def inner_inv(it, env):
        i = env['$idx']
        p1 = env['p1']
        return [('position-is-p1-plus-i-steps', z3.And(env['px'] == p1[0] + z3.ToReal(i) * env['dx'], env['py'] == p1[1] + z3.ToReal(i) * env['dy']))]

    def inner_body_post(it, env, pre, elem, events, how):
        apps = [e for e in events if e.kind == 'append']
        i1 = env['$idx']       # already idx+1 here? no: incremented after body_post; use the invariant form directly
        p1, p2 = env['p1'], env['p2']
        ok = len(apps) == 1 and isinstance(apps[0].value, tuple) and len(apps[0].value) == 2
        it.ctx.oblige("interpolate:one-point-per-step", b2z(ok), kind='post')
        if ok:
            q = apps[0].value
            dt = env['dt']
            s_num = z3.ToReal(env['$idx'])      # the engine has already advanced the index past this iteration
            # the inserted point is p1 + s (p2 - p1) with s = (i+1)/dt in (0, 1]
            it.ctx.oblige("interpolate:inserted-point-on-the-straight-connection",
                          z3.And(q[0] * z3.ToReal(dt) == p1[0] * z3.ToReal(dt) + s_num * (p2[0] - p1[0]),
                                 q[1] * z3.ToReal(dt) == p1[1] * z3.ToReal(dt) + s_num * (p2[1] - p1[1]),
                                 s_num > 0, s_num <= z3.ToReal(dt)), kind='post')
            # consecutive inserted points are exactly one step apart, and a step is at most dd long
            it.ctx.oblige("interpolate:gap-at-most-spacing",
                          (env['dx'] * env['dx'] + env['dy'] * env['dy']) <= dd * dd, kind='post')

    import ast
    loops_ast = sorted([x for x in ast.walk(fv.node) if isinstance(x, (ast.For, ast.While))], key=lambda x: (x.lineno, x.col_offset))
    inner = [i for i, x in enumerate(loops_ast) if isinstance(x, ast.For) and 'range' in ast.unparse(x.iter)]
    loops = {}
    if len(inner) == 1:
        loops[(fv.qual, inner[0])] = {'inv': inner_inv, 'body_post': inner_body_post}

    def end_goals(ctx, why):
        # end of an arbitrary OUTER iteration that did not enter the inner loop body: events of this pair
        g = []
        if 'k' not in st:
            return g
        k = st['k']
        p1, p2 = pt(k), pt(k + 1)
        apps = [e for e in ctx.events if e.kind == 'append']
        inner_it = [e for e in ctx.events if e.kind == 'iter-begin' and len(e.loops) == 2]
        if inner_it:
            return g           # obligations of inner iterations are emitted by inner_body_post
        if not apps:
            return [('interpolate:every-original-point-is-kept', z3.BoolVal(False))]
        g.append(('interpolate:original-end-point-appended-last', b2z(eq(apps[-1].value, p2))))
        skipped = any(e.kind == 'loop-skipped' for e in ctx.events)
        if not skipped:
            # no subdivision: allowed only when the pair is at most dd apart
            g.append(('interpolate:unsubdivided-pair-within-spacing', G.dist2(p1, p2) <= dd * dd))
            g.append(('interpolate:nothing-inserted-without-subdivision', b2z(len(apps) == 1)))
        return g

    def goals(ctx, res):
        g = [('interpolate:result-is-the-accumulated-list', b2z(isinstance(res, Accum)))]
        if isinstance(res, Accum):
            g.append(('interpolate:first-point-kept', b2z(len(res.init) == 1 and eq(res.init[0], pt(z3.IntVal(0))) is not False) if len(res.init) != 1
                      else b2z(eq(res.init[0], pt(z3.IntVal(0))))))
        return g
    rep = verify_function(prog, fv, setup, goals, hooks=hooks, loops=loops, end_goals=end_goals,
                          models={'distance': None} if False else None, name="dist_euclidean.interpolate_path")
    rep.inner_found = len(inner) == 1
    return fv, rep
