"""C14: lat-lon primitives with trigonometry replaced by algebraic atoms (Ackermannisation): every sin/cos of a base
symbol is a pair of fresh reals with Pythagoras; sin/cos of a difference or of a half are expanded / constrained by the
exact identities.  atan2/asin results are angles given by their own atom pairs (lemma base, DESIGN 3.3).  `unsat`
transfers to real analysis because every constraint is a theorem of it."""
import z3
from pyvc.values import *
from pyvc.interp import Event, zand, eq, Obligation
from pyvc.verify import verify_function
from pyvc.models import Model

MOD = 'leuvenmapmatching.util.dist_latlon'
R = z3.Real


class Trig:
    """angle expression -> (sin, cos) as z3 reals, decomposed structurally"""

    def __init__(self, ctx):
        self.ctx = ctx
        self.memo = {}

    def linear(self, e):
        """e as sum of (coefficient, base term) pairs (z3 linear normal form)"""
        e = z3.simplify(e)
        terms = list(e.children()) if z3.is_add(e) else [e]
        out = []
        for t in terms:
            if z3.is_rational_value(t):
                if t.as_fraction() != 0:
                    raise Unsupported("trig of an angle with a constant offset")
                continue
            if z3.is_mul(t) and t.num_args() == 2 and z3.is_rational_value(t.arg(0)):
                out.append((t.arg(0).as_fraction(), t.arg(1)))
            elif z3.is_app_of(t, z3.Z3_OP_UMINUS):
                out.append((Fraction(-1), t.arg(0)))
            else:
                out.append((Fraction(1), t))
        return out

    def base(self, x):
        key = 'b:' + x.sexpr()
        if key not in self.memo:
            s_, c_ = self.ctx.fresh('sin'), self.ctx.fresh('cos')
            self.ctx.assume(s_ * s_ + c_ * c_ == 1)
            self.memo[key] = (s_, c_)
        return self.memo[key]

    def half(self, x):
        key = 'h:' + x.sexpr()
        if key not in self.memo:
            sx, cx = self.base(x)
            sh, ch = self.ctx.fresh('sinh'), self.ctx.fresh('cosh')
            self.ctx.assume(sh * sh + ch * ch == 1, ch * ch - sh * sh == cx, 2 * sh * ch == sx)
            self.memo[key] = (sh, ch)
        return self.memo[key]

    def atoms(self, e):
        if not z3.is_expr(e):
            if e == 0:
                return (z3.RealVal(0), z3.RealVal(1))
            raise Unsupported(f"trig of constant {e}")
        lin = self.linear(e)
        if lin and all(abs(c) == Fraction(1, 2) for c, _ in lin):
            # a half of a (composite) angle: atoms of the whole angle first, then one half-angle pair for it
            key = 'H:' + z3.simplify(e).sexpr()
            if key not in self.memo:
                S, C = self.atoms(z3.simplify(2 * e))
                sh, ch = self.ctx.fresh('sinh'), self.ctx.fresh('cosh')
                self.ctx.assume(sh * sh + ch * ch == 1, ch * ch - sh * sh == C, 2 * sh * ch == S, 2 * sh * sh == 1 - C, 2 * ch * ch == 1 + C)
                self.memo[key] = (sh, ch)
            return self.memo[key]
        acc = (z3.RealVal(0), z3.RealVal(1))
        for c, x in lin:
            if abs(c) == 1:
                sx, cx = self.base(x)
            elif abs(c) == Fraction(1, 2):
                sx, cx = self.half(x)
            else:
                # other coefficients: the scaled term is a base symbol of its own (no identities: sound, incomplete)
                sx, cx = self.base(z3.simplify(abs(c) * x))
            if c < 0:
                sx = -sx
            acc = (acc[0] * cx + acc[1] * sx, acc[1] * cx - acc[0] * sx)
        return (z3.simplify(acc[0]), z3.simplify(acc[1]))


def trig_models(st):
    def get(it):
        if st.get('trig_ctx') is not it.ctx:
            st['trig'] = Trig(it.ctx)
            st['trig_ctx'] = it.ctx
        return st['trig']

    def m_sin(it, x):
        return get(it).atoms(to_z3(x))[0]

    def m_cos(it, x):
        return get(it).atoms(to_z3(x))[1]

    def m_atan2(it, y, x):
        # theta = atan2(y, x): x = r cos(theta), y = r sin(theta), r >= 0, r^2 = x^2 + y^2  (L-atan2-unit); the angle is a fresh
        # base symbol whose atoms are registered
        y, x = to_z3(y), to_z3(x)
        th = it.ctx.fresh('theta')
        s, c = get(it).atoms(th)
        r = it.ctx.fresh('r')
        it.ctx.assume(r >= 0, r * r == x * x + y * y, x == r * c, y == r * s)
        st.setdefault('atan2', []).append({'theta': th, 'sin': s, 'cos': c, 'r': r, 'y': y, 'x': x})
        return th

    def m_asin(it, z):
        z = to_z3(z)
        it.ctx.oblige("domain:asin-arg-in-[-1,1]", z3.And(z >= -1, z <= 1), kind='domain')
        th = it.ctx.fresh('phi')
        s, c = get(it).atoms(th)
        it.ctx.assume(s == z, c >= 0)          # L-asin: sin(asin z) = z, cos >= 0
        st.setdefault('asin', []).append({'theta': th, 'sin': s, 'cos': c, 'z': z})
        return th
    return {'sin': Model('sin', m_sin), 'cos': Model('cos', m_cos), 'atan2': Model('atan2', m_atan2), 'asin': Model('asin', m_asin),
            'earth_radius': 6371000}


def b2z(x):
    return z3.BoolVal(x) if isinstance(x, bool) else x


def vc_haversine(prog):
    prog.load(MOD)
    fv = prog.func(MOD, 'distance_haversine_radians')
    st = {}
    lat1, lon1, lat2, lon2 = R('lat1'), R('lon1'), R('lat2'), R('lon2')

    def setup(ctx, it):
        st.clear()
        tm = trig_models(st)
        it.models.update(tm)
        # |lat| <= pi/2: cos(lat) >= 0
        t = tm['cos'].fn(it, lat1)
        t2 = tm['cos'].fn(it, lat2)
        ctx.assume(t >= 0, t2 >= 0)
        return [lat1, lon1, lat2, lon2], {}

    def goals(ctx, res):
        T = st['trig']
        s1, c1 = T.atoms(lat1)
        s2, c2 = T.atoms(lat2)
        so1, co1 = T.atoms(lon1)
        so2, co2 = T.atoms(lon2)
        # unit vectors u = (cos lat cos lon, cos lat sin lon, sin lat)
        dot = c1 * co1 * c2 * co2 + c1 * so1 * c2 * so2 + s1 * s2
        g = []
        at = st.get('atan2', [])
        g.append(('haversine:one-atan2', b2z(len(at) == 1)))
        if len(at) == 1:
            a = at[0]
            # the angle theta = atan2(sqrt(a), sqrt(1-a)) satisfies cos(2 theta) = u1.u2 with theta in [0, pi/2]:
            # the returned distance 2 R theta is R * arccos(u1.u2) (L-hav)
            g.append(('haversine:cos(2theta)-is-the-dot-product-of-the-unit-vectors', a['cos'] * a['cos'] - a['sin'] * a['sin'] == dot))
            g.append(('haversine:theta-in-first-quadrant', z3.And(a['sin'] >= 0, a['cos'] >= 0)))
            g.append(('haversine:result-is-2*R*theta', to_z3(res) == 2 * 6371000 * a['theta']))
        return g
    rep = verify_function(prog, fv, setup, goals, name="dist_latlon.distance_haversine_radians", prune=False)
    return fv, rep


def vc_destination(prog):
    """destination_radians: asin argument in [-1,1]; the destination is at angular distance d from the start
    (u1.u2 == cos d) and the bearing back-substitutes (atan2 arguments are sin d sin theta cos lat1-scaled)."""
    prog.load(MOD)
    fv = prog.func(MOD, 'destination_radians')
    st = {}
    lat1, lon1, brg, dist = R('lat1'), R('lon1'), R('bearing'), R('dist')

    def setup(ctx, it):
        st.clear()
        tm = trig_models(st)
        it.models.update(tm)
        c1 = tm['cos'].fn(it, lat1)
        ctx.assume(c1 > 0)
        return [lat1, lon1, brg, dist], {}

    def goals(ctx, res):
        T = st['trig']
        s1, c1 = T.atoms(lat1)
        sb, cb = T.atoms(brg)
        d = z3.simplify(dist / 6371000)
        sd, cd = T.atoms(d)
        g = []
        asn, at = st.get('asin', []), st.get('atan2', [])
        g.append(('destination:shape', b2z(len(asn) == 1 and len(at) == 1 and isinstance(res, tuple) and len(res) == 2)))
        if len(asn) == 1 and len(at) == 1:
            s2, c2 = asn[0]['sin'], asn[0]['cos']
            a = at[0]
            g.append(('destination:latitude(sin lat2 = sin lat1 cos d + cos lat1 sin d cos bearing)', s2 == s1 * cd + c1 * sd * cb))
            # r^2 of the atan2 arguments equals (cos lat1 cos lat2)^2, hence cos/sin of dlon are x/(c1 c2), y/(c1 c2)
            g.append(('destination:atan2-radius', a['r'] * a['r'] == (c1 * c2) * (c1 * c2)))
            # great-circle distance back: u1.u2 == cos d   (with cos dlon = x/(c1 c2))
            g.append(('destination:angular-distance-is-d', z3.Implies(c2 > 0, s1 * s2 * (c1 * c2) + c1 * c2 * a['x'] == cd * (c1 * c2))))
            g.append(('destination:longitude-offset-added', to_z3(res[1]) == lon1 + a['theta']))
        return g
    rep = verify_function(prog, fv, setup, goals, name="dist_latlon.destination_radians", prune=False)
    return fv, rep
