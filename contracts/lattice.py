"""Sidecar contracts for the lattice classes of leuvenmapmatching.matcher.base (BaseMatching, LatticeColumn,
BaseMatcher.do_stop) and the two matcher families.  Postconditions are taken from the statements of
C01/C02/C05/C07/C09/C17/C19; shapes and frames from the code and its call sites."""
import z3
from pyvc.values import *
from pyvc.interp import Event, zand, zor, znot, eq, INF
from pyvc.models import Model

BASE = 'leuvenmapmatching.matcher.base'
DIST = 'leuvenmapmatching.matcher.distance'
SIMPLE = 'leuvenmapmatching.matcher.simple'
SEG = 'leuvenmapmatching.util.segment'
UTIL = 'leuvenmapmatching.util'

R, I, B = z3.Real, z3.Int, z3.Bool


def L(nm):
    return z3.Const(nm, Label)


def load_all(prog):
    for m in (BASE, DIST, SIMPLE, SEG, UTIL, 'leuvenmapmatching.map.base', 'leuvenmapmatching.map.inmem'):
        prog.load(m)


# --------------------------------------------------------------------------------------------- abstract metric (K-metric)
def metric_models(ctx_holder=None):
    """Models of map.distance / distance_point_to_segment / distance_segment_to_segment: the abstract contract K-metric
    (proved for the planar module in C13, bounded for the lat-lon module in C14).  Each call is logged."""

    def m_distance(it, o, p1, p2):
        d = it.ctx.fresh('dist')
        it.ctx.assume(d >= 0)
        it.ctx.events.append(Event('metric', fn='distance', args=(p1, p2), result=d))
        return d

    def m_p2s(it, o, p, s1, s2, **kw):
        d, t = it.ctx.fresh('dist'), it.ctx.fresh('t')
        pi = (it.ctx.fresh('pix'), it.ctx.fresh('piy'))
        it.ctx.assume(d >= 0, t >= 0, t <= 1)
        res = (d, pi, t)
        it.ctx.events.append(Event('metric', fn='distance_point_to_segment', args=(p, s1, s2), result=res))
        return res

    def m_s2s(it, o, f1, f2, t1, t2):
        d, tf, tt = it.ctx.fresh('dist'), it.ctx.fresh('tf'), it.ctx.fresh('tt')
        pf = (it.ctx.fresh('pfx'), it.ctx.fresh('pfy'))
        pt = (it.ctx.fresh('ptx'), it.ctx.fresh('pty'))
        it.ctx.assume(d >= 0, tf >= 0, tf <= 1, tt >= 0, tt <= 1)
        res = (d, pf, pt, tf, tt)
        it.ctx.events.append(Event('metric', fn='distance_segment_to_segment', args=(f1, f2, t1, t2), result=res))
        return res
    return {('meth', 'Map', 'distance'): Model('map.distance', m_distance),
            ('meth', 'Map', 'distance_point_to_segment'): Model('map.distance_point_to_segment', m_p2s),
            ('meth', 'Map', 'distance_segment_to_segment'): Model('map.distance_segment_to_segment', m_s2s)}


def base_models():
    m = metric_models()
    m['ema_const'] = Obj('EMAConst', prev=Fraction(7, 10), cur=Fraction(3, 10))
    m['approx_value'] = Fraction(1, 10 ** 10)
    m['default_label_width'] = 25
    return m


# --------------------------------------------------------------------------------------------- symbolic objects
def mk_segment(nm, is_point, with_proj=False):
    """A Segment record as the real constructor would build it (slots l1,p1,l2,p2,_pi,_ti)."""
    f = dict(l1=L(nm + '_l1'), p1=(R(nm + '_x1'), R(nm + '_y1')),
             l2=None if is_point else L(nm + '_l2'), p2=None if is_point else (R(nm + '_x2'), R(nm + '_y2')),
             _pi=None, _ti=None)
    if with_proj and not is_point:
        f['_pi'] = (R(nm + '_pix'), R(nm + '_piy'))
        f['_ti'] = R(nm + '_ti')
    o = Obj('Segment', **f)
    o.tag = nm
    return o


def mk_matcher(cls='BaseMatcher', max_dist_inf=False, min_lp_inf=False, only_edges=None):
    f = dict(map=Obj('Map'), only_edges=B('only_edges') if only_edges is None else only_edges,
             ne_length_factor_log=R('nef'),
             min_logprob_norm=(-INF) if min_lp_inf else R('min_lp'),
             max_dist=INF if max_dist_inf else R('max_dist'),
             max_dist_init=R('max_dist_init'), expand_now=I('expand_now'), max_lattice_width=None,
             matching=ClassVal({'DistanceMatcher': 'DistanceMatching', 'SimpleMatcher': 'SimpleMatching'}.get(cls, 'BaseMatching')))
    if cls == 'DistanceMatcher':
        f.update(beta=R('beta'), beta_ne=R('beta_ne'), sigma=R('sigma'), sigma_ne=R('sigma_ne'),
                 exact_dt_s=True, avoid_goingback=B('avoid_goingback'),
                 gobackonedge_factor_log=R('gobackonedge'), gobacktoedge_factor_log=R('gobacktoedge'),
                 first_farend_penalty=R('first_farend'), notconnectededges_factor_log=R('notconnected'),
                 restrained_ne=B('restrained_ne'), restrained_ne_thr=Fraction(5, 4), use_original=False)
    if cls == 'SimpleMatcher':
        f.update(avoid_goingback=B('avoid_goingback'), gobackonedge_factor_log=R('gobackonedge'),
                 gobacktoedge_factor_log=R('gobacktoedge'), transition_factor=R('transition_factor'),
                 obs_noise_logint=R('logint'), obs_noise_logint_ne=R('logint_ne'),
                 obs_noise_dist=Obj('HalfNorm', scale=R('obs_noise')), obs_noise_dist_ne=Obj('HalfNorm', scale=R('obs_noise_ne')))
    o = Obj(cls, **f)
    o.tag = 'matcher'
    return o


def matcher_requires(m):
    """What BaseMatcher.__init__ / DistanceMatcher.__init__ establish (proved separately in ctor obligations)."""
    out = [m.f['ne_length_factor_log'] <= 0]
    for k in ('beta', 'beta_ne', 'sigma', 'sigma_ne'):
        if k in m.f:
            out.append(m.f[k] > 0)
    for k in ('gobackonedge_factor_log', 'gobacktoedge_factor_log', 'notconnectededges_factor_log', 'first_farend_penalty',
              'transition_factor'):
        if k in m.f:
            out.append(m.f[k] <= 0)
    return out


MATCHING_FIELDS = ['logprob', 'logprobema', 'logprobe', 'logprobne', 'obs', 'obs_ne', 'dist_obs', 'stop', 'length', 'delayed']
DIST_FIELDS = ['d_s', 'd_o', 'lpe', 'lpt']


def mk_matching(nm, matcher, cls='BaseMatching', edge_m=None, edge_o=None, stop=None, prev=None):
    f = dict(matcher=matcher, edge_m=edge_m, edge_o=edge_o,
             logprob=R(nm + '_lp'), logprobema=R(nm + '_ema'), logprobe=R(nm + '_lpe_'), logprobne=R(nm + '_lpne'),
             obs=I(nm + '_obs'), obs_ne=I(nm + '_obsne'), dist_obs=R(nm + '_dist'),
             prev=SetVal(prev or []), prev_other=SetVal([]), stop=B(nm + '_stop') if stop is None else stop,
             length=I(nm + '_len'), delayed=I(nm + '_delayed'))
    if cls == 'DistanceMatching':
        f.update(d_s=R(nm + '_ds'), d_o=R(nm + '_do'), lpe=R(nm + '_lpe'), lpt=R(nm + '_lpt'))
    o = Obj(cls, **f)
    o.tag = nm
    return o


def matching_invariant(m):
    """Class invariant of a lattice entry (C09 local clauses)."""
    f = m.f
    return [f['logprob'] <= 0, f['logprob'] == f['logprobe'] + f['logprobne'], f['logprobne'] <= 0,
            f['length'] >= 1, f['obs'] >= 0, f['obs_ne'] >= 0, f['dist_obs'] >= 0]


# --------------------------------------------------------------------------------------------- K-trans / K-obs (abstract)
def abstract_prob_models(family):
    """Abstract contracts of matcher.logprob_trans / logprob_obs used when verifying BaseMatching.next/first:
    result <= 0 (proper probability) and the family's property dictionary.  Calls are logged with their arguments."""

    def m_trans(it, o, prev_m, edge_m, edge_o, is_prev_ne=False, is_next_ne=False):
        lt = it.ctx.fresh('lt')
        it.ctx.assume(lt <= 0)
        props = {}
        if family == 'distance':
            props = {'d_o': it.ctx.fresh('d_o'), 'd_s': it.ctx.fresh('d_s'), 'lpt': lt}
        it.ctx.events.append(Event('prob', fn='logprob_trans', args=(prev_m, edge_m, edge_o),
                                   kw={'is_prev_ne': is_prev_ne, 'is_next_ne': is_next_ne}, result=(lt, props)))
        return (lt, props)

    def m_obs(it, o, dist, prev_m=None, new_edge_m=None, new_edge_o=None, is_ne=False):
        lo = it.ctx.fresh('lo')
        it.ctx.assume(lo <= 0)
        props = {'lpe': lo} if family == 'distance' else {}
        it.ctx.events.append(Event('prob', fn='logprob_obs', args=(dist, prev_m, new_edge_m, new_edge_o),
                                   kw={'is_ne': is_ne}, result=(lo, props)))
        return (lo, props)
    cls = {'distance': 'DistanceMatcher', 'simple': 'SimpleMatcher', 'base': 'BaseMatcher'}[family]
    return {('meth', cls, 'logprob_trans'): Model('logprob_trans', m_trans),
            ('meth', cls, 'logprob_obs'): Model('logprob_obs', m_obs)}


def stop_spec(matcher, logprob_norm, dist):
    """K-stop: do_stop(logprob_norm, dist, ..) <=> logprob_norm < min_logprob_norm or dist > max_dist (strict)."""
    mn, mx = matcher.f['min_logprob_norm'], matcher.f['max_dist']
    a = False if isinstance(mn, float) else (logprob_norm < mn)
    b = False if isinstance(mx, float) else (dist > mx)
    return zor(a, b)
