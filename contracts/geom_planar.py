"""Sidecar contracts for leuvenmapmatching.util.dist_euclidean (planar metric).

Every contract is used in two roles: as *goal* when the function's own body is verified, and as
*assumption* (havoc result, assume post) at call sites in other functions.  Postconditions are taken
from the statement of C13 ("nearest point", "true minimum distance", "box contains the disc").
"""
import z3
from fractions import Fraction
from pyvc.values import *
from pyvc.interp import Event, zand, zor, znot
from pyvc.models import zabs, ATOL

MOD = 'leuvenmapmatching.util.dist_euclidean'
TOL = z3.RealVal('1/100000000')


def pt(ctx, nm):
    return (ctx.fresh(nm + 'x'), ctx.fresh(nm + 'y'))


def sq(a):
    return a * a


def dist2(p, q):
    return sq(p[0] - q[0]) + sq(p[1] - q[1])


def dot(a, b):
    return a[0] * b[0] + a[1] * b[1]


def sub(a, b):
    return (a[0] - b[0], a[1] - b[1])


def lerp(a, b, t):
    return (a[0] + t * (b[0] - a[0]), a[1] + t * (b[1] - a[1]))


def close(a, b):
    """np.isclose(a, b, rtol=0)"""
    return z3.And(a - b <= TOL, b - a <= TOL)


# region predicates (where the code switches to its tolerance branches)
def seg_exact_degenerate(s1, s2):
    return z3.And(s1[0] == s2[0], s1[1] == s2[1])


def seg_close_degenerate(s1, s2):
    return z3.And(close(s1[0], s2[0]), close(s1[1], s2[1]))


def seg_band(s1, s2):
    """inside the absolute-tolerance band but not exactly degenerate (finding F5b)"""
    return z3.And(seg_close_degenerate(s1, s2), z3.Not(seg_exact_degenerate(s1, s2)))


# ------------------------------------------------------------------------------------------ distance
def distance_post(p1, p2, r):
    return [('nonneg', r >= 0), ('pythagoras', r * r == dist2(p1, p2))]


# ------------------------------------------------------------------------------------------ project
def project_post(s1, s2, p, delta, res):
    """Complete functional description (strongest postcondition): the degenerate region returns (s1, 0); otherwise
    t is the clamped orthogonal projection parameter, written without division: with l2 = |s2-s1|^2 > 0 and
    k = (p-s1).(s2-s1):  k <= delta*l2 -> t = delta;  k >= (1-delta)*l2 -> t = 1-delta;  else t*l2 = k."""
    (px, py), t = res
    d = sub(s2, s1)
    l2 = dot(d, d)
    k = dot(sub(p, s1), d)
    deg = seg_close_degenerate(s1, s2)
    nd = z3.Not(deg)
    return [
        ('degenerate-returns-start', z3.Implies(deg, z3.And(px == s1[0], py == s1[1], t == 0))),
        ('t-clamped-low', z3.Implies(z3.And(nd, k <= delta * l2), t == delta)),
        ('t-clamped-high', z3.Implies(z3.And(nd, k >= (1 - delta) * l2), t == 1 - delta)),
        ('t-orthogonal', z3.Implies(z3.And(nd, k > delta * l2, k < (1 - delta) * l2), t * l2 == k)),
        ('on-segment', z3.Implies(nd, z3.And(px == s1[0] + t * d[0], py == s1[1] + t * d[1]))),
        ('t-range', z3.Implies(nd, z3.And(t >= delta, t <= 1 - delta))),
        ('kkt-lower', z3.Implies(z3.And(nd, t > delta), dot(sub((px, py), p), d) <= 0)),
        ('kkt-upper', z3.Implies(z3.And(nd, t < 1 - delta), dot(sub((px, py), p), d) >= 0)),
    ]


def project_strict_goals(s1, s2, p, delta, res):
    """What C13 states (nearest point of the segment), for delta == 0, in every region."""
    (px, py), t = res
    d = sub(s2, s1)
    g = dot(sub((px, py), p), d)
    return [
        ('t-in-[0,1]', z3.And(t >= 0, t <= 1)),
        ('point-at-t', z3.And(px == s1[0] + t * d[0], py == s1[1] + t * d[1])),
        ('nearest-kkt', z3.And(z3.Implies(t > 0, g <= 0), z3.Implies(t < 1, g >= 0))),
    ]


# ------------------------------------------------------------------------------------------ point-segment
def p2s_post(p, s1, s2, delta, res):
    dist, pi, ti = res
    return [('dist-is-distance-to-pi', z3.And(dist >= 0, dist * dist == dist2(pi, p)))] + \
        [('proj:' + n, f) for n, f in project_post(s1, s2, p, delta, (pi, ti))]


# ------------------------------------------------------------------------------------------ segment-segment
def s2s_n(f1, f2, t1, t2):
    return (t2[1] - t1[1]) * (f2[0] - f1[0]) - (t2[0] - t1[0]) * (f2[1] - f1[1])


def s2s_strict_goals(f1, f2, t1, t2, res):
    d, pf, ptt, uf, ut = res
    u = sub(f2, f1)
    v = sub(t2, t1)
    F = lerp(f1, f2, uf)
    T = lerp(t1, t2, ut)
    w = sub(F, T)
    ga = dot(w, u)
    gb = -dot(w, v)
    return [
        ('range', z3.And(uf >= 0, uf <= 1, ut >= 0, ut <= 1)),
        ('pf-on-f-at-uf', z3.And(pf[0] == F[0], pf[1] == F[1])),
        ('pt-on-t-at-ut', z3.And(ptt[0] == T[0], ptt[1] == T[1])),
        ('distance', z3.And(to_z3(d) >= 0, to_z3(d) * to_z3(d) == dist2(pf, ptt))),
        ('kkt-f', z3.And(z3.Implies(uf > 0, ga <= 0), z3.Implies(uf < 1, ga >= 0))),
        ('kkt-t', z3.And(z3.Implies(ut > 0, gb <= 0), z3.Implies(ut < 1, gb >= 0))),
    ]


def s2s_regions(f1, f2, t1, t2):
    n = s2s_n(f1, f2, t1, t2)
    band = zor(seg_band(f1, f2), seg_band(t1, t2))
    return {
        'generic': z3.And(z3.Or(n > TOL, -n > TOL), z3.Not(band)),
        'exactly-parallel': z3.And(n == 0, z3.Not(band)),
        'tolerance-band': z3.Or(z3.And(n != 0, n <= TOL, -n <= TOL), band),
    }


def s2s_post(f1, f2, t1, t2, res):
    """Callee contract: the strict statement outside the tolerance band."""
    reg = s2s_regions(f1, f2, t1, t2)
    out = []
    for nm, g in s2s_strict_goals(f1, f2, t1, t2, res):
        out.append((nm, z3.Implies(z3.Not(reg['tolerance-band']), g)))
    # inside the band only the shape is promised
    d, pf, ptt, uf, ut = res
    out.append(('band-shape', z3.And(to_z3(d) >= 0, uf >= 0, uf <= 1, ut >= 0, ut <= 1)))
    return out


# ------------------------------------------------------------------------------------------ box
def box_post(p, dist, res):
    lat_b, lon_l, lat_t, lon_r = res
    return [('box-is-centered-square', z3.And(lat_b == p[0] - dist, lat_t == p[0] + dist,
                                              lon_l == p[1] - dist, lon_r == p[1] + dist))]


def box_contains_disc_goal(ctx, p, dist, res):
    lat_b, lon_l, lat_t, lon_r = res
    q = pt(ctx, 'q')
    return z3.Implies(z3.And(dist >= 0, dist2(p, q) <= dist * dist),
                      z3.And(lat_b <= q[0], q[0] <= lat_t, lon_l <= q[1], q[1] <= lon_r))


# ------------------------------------------------------------------------------------------ callee wrappers
def _pt2(it, v, what):
    """A point argument used by the planar routines through indexing [0], [1] (extra components ignored)."""
    if isinstance(v, (tuple, list)) and len(v) >= 2:
        return (to_z3(v[0]), to_z3(v[1]))
    raise Unsupported(f"{what}: point expected, got {v!r}")


def callee_distance(it, fv, args, kw):
    p1, p2 = _pt2(it, args[0], 'distance'), _pt2(it, args[1], 'distance')
    r = it.ctx.fresh('dist')
    it.ctx.assume(*[f for _, f in distance_post(p1, p2, r)])
    it.ctx.events.append(Event('call', fn='distance', args=(args[0], args[1]), result=r, loops=list(it.ctx.loop_stack)))
    return r


def callee_project(it, fv, args, kw):
    s1, s2, p = (_pt2(it, a, 'project') for a in args[:3])
    delta = args[3] if len(args) > 3 else kw.get('delta', 0)
    delta = to_z3(delta) if not z3.is_expr(delta) else delta
    res = (pt(it.ctx, 'pr'), it.ctx.fresh('t'))
    it.ctx.assume(*[f for _, f in project_post(s1, s2, p, delta, res)])
    it.ctx.events.append(Event('call', fn='project', args=(args[0], args[1], args[2], delta), result=res,
                               loops=list(it.ctx.loop_stack)))
    return res


def callee_p2s(it, fv, args, kw):
    p, s1, s2 = (_pt2(it, a, 'distance_point_to_segment') for a in args[:3])
    delta = args[3] if len(args) > 3 else kw.get('delta', 0)
    delta = to_z3(delta) if not z3.is_expr(delta) else delta
    res = (it.ctx.fresh('dist'), pt(it.ctx, 'pi'), it.ctx.fresh('ti'))
    it.ctx.assume(*[f for _, f in p2s_post(p, s1, s2, delta, res)])
    it.ctx.events.append(Event('call', fn='distance_point_to_segment', args=tuple(args[:3]), result=res,
                               loops=list(it.ctx.loop_stack)))
    return res


def callee_s2s(it, fv, args, kw):
    for a in args[:4]:
        if not (isinstance(a, (tuple, list)) and len(a) == 2):
            it.ctx.oblige("arity:segment-to-segment-needs-pairs", False, kind='arity')
    f1, f2, t1, t2 = (_pt2(it, a, 'distance_segment_to_segment') for a in args[:4])
    res = (it.ctx.fresh('dist'), pt(it.ctx, 'pf'), pt(it.ctx, 'pt'), it.ctx.fresh('uf'), it.ctx.fresh('ut'))
    it.ctx.assume(*[f for _, f in s2s_post(f1, f2, t1, t2, res)])
    it.ctx.events.append(Event('call', fn='distance_segment_to_segment', args=tuple(args[:4]), result=res,
                               loops=list(it.ctx.loop_stack)))
    return res


def callee_box(it, fv, args, kw):
    p = args[0]
    if not (isinstance(p, (tuple, list)) and len(p) == 2):
        it.ctx.oblige("arity:box_around_point-needs-a-pair", False, kind='arity')
    p = _pt2(it, p, 'box_around_point')
    dist = args[1]
    if isinstance(dist, float):
        raise Unsupported("box_around_point with infinite radius")
    dist = to_z3(dist)
    res = tuple(it.ctx.fresh(n) for n in ('lat_b', 'lon_l', 'lat_t', 'lon_r'))
    it.ctx.assume(*[f for _, f in box_post(p, dist, res)])
    it.ctx.events.append(Event('call', fn='box_around_point', args=(args[0], args[1]), result=res,
                               loops=list(it.ctx.loop_stack)))
    return res


CALLEE = {
    'dist_euclidean.distance': callee_distance,
    'dist_euclidean.project': callee_project,
    'dist_euclidean.distance_point_to_segment': callee_p2s,
    'dist_euclidean.distance_segment_to_segment': callee_s2s,
    'dist_euclidean.box_around_point': callee_box,
}
