"""Contracts for the map classes: metric selection (C15/C18), stored-map round trips (C18), spatial queries of the
in-memory map (C11)."""
import ast
import z3
from pyvc.values import *
from pyvc.interp import Event, zand, zor, znot, eq, Obligation
from pyvc.verify import verify_function
from pyvc.models import Model
from contracts import lattice as K, geom_planar as G

MBASE, MINMEM, MSQL = 'leuvenmapmatching.map.base', 'leuvenmapmatching.map.inmem', 'leuvenmapmatching.map.sqlite'
FIVE = ('distance', 'distance_point_to_segment', 'distance_segment_to_segment', 'box_around_point', 'lines_parallel')
R, I, B = z3.Real, z3.Int, z3.Bool


def b2z(x):
    return z3.BoolVal(x) if isinstance(x, bool) else x


def load(prog):
    for m in (MBASE, MINMEM, MSQL, 'leuvenmapmatching.util.dist_latlon', 'leuvenmapmatching.util.dist_euclidean'):
        prog.load(m)


def metric_consistent(o, latlon):
    """the five metric callables of map object o all come from ONE module, the lat-lon one iff latlon"""
    want = 'leuvenmapmatching.util.dist_latlon' if latlon else 'leuvenmapmatching.util.dist_euclidean'
    return all(isinstance(o.f.get(k), FuncVal) and o.f[k].module == want and o.f[k].node.name == k for k in FIVE)


# ------------------------------------------------------------------------------------------ use_latlon setter
def vc_use_latlon_setter(prog, value):
    load(prog)
    r = prog.find_member('BaseMap', 'use_latlon', kinds=('setter',))
    fv = FuncVal(r[0], MBASE, 'BaseMap')
    st = {}

    def setup(ctx, it):
        o = Obj('BaseMap', name='m', _use_latlon=None, distance=None, distance_point_to_segment=None,
                distance_segment_to_segment=None, box_around_point=None)
        st['o'] = o
        return [o, value], {}

    def goals(ctx, res):
        o = st['o']
        return [('metric:consistent-quintuple-from-one-module', b2z(metric_consistent(o, bool(value)))),
                ('metric:flag-stored', b2z(o.f['_use_latlon'] is value or o.f['_use_latlon'] == value))]
    rep = verify_function(prog, fv, setup, goals, name=f"BaseMap.use_latlon.setter[{value!r}]")
    return fv, rep


def vc_basemap_init(prog, value):
    load(prog)
    fv = prog.func(MBASE, 'BaseMap.__init__')
    st = {}

    def setup(ctx, it):
        o = Obj('BaseMap')
        st['o'] = o
        return [o, 'name'], {'use_latlon': value}

    def goals(ctx, res):
        o = st['o']
        # the property getter must report the flag, the callables must match it
        flag = o.f.get('_use_latlon')
        return [('metric:init-routes-through-the-setter', b2z(metric_consistent(o, bool(value)) and (flag is value or flag == value)))]
    rep = verify_function(prog, fv, setup, goals, name=f"BaseMap.__init__[use_latlon={value!r}]")
    return fv, rep


# ------------------------------------------------------------------------------------------ SqliteMap.read_properties
def vc_read_properties(prog, stored_flag, initial_flag=True, duplicates=False):
    """Object-model part of reopening a SQLite map: rows of the properties table are applied to the object under
    Python's attribute semantics (data descriptor `use_latlon` beats the instance dict)."""
    load(prog)
    fv = prog.func(MSQL, 'SqliteMap.read_properties')
    st = {}
    rows_v = [('name', 'stored-name'), ('use_latlon', stored_flag), ('crs_lonlat', 'EPSG:4258'), ('crs_xy', 'EPSG:31370')]
    if duplicates:     # rows written by an earlier session come first; the last row per key is the current value
        rows_v = [('name', 'stored-name'), ('use_latlon', stored_flag), ('crs_lonlat', 'EPSG:4258'), ('crs_xy', 'EPSG:31370')] * 2

    def setup(ctx, it):
        o = Obj('SqliteMap', name='ctor-name', crs_lonlat=None, crs_xy=None, db=Obj('DB'))
        # state after BaseMap.__init__(name, use_latlon=initial_flag)
        setter = prog.find_member('BaseMap', 'use_latlon', kinds=('setter',))
        it.call_fn(FuncVal(setter[0], MBASE, 'BaseMap'), [o, initial_flag], {})
        st['o'] = o
        return [o], {}

    def m_cursor(it, db):
        return Obj('Cursor')

    def m_execute(it, cur, q, *a):
        st['query'] = q
        return [(k, ('blob', v)) for k, v in rows_v]

    def m_loads(it, blob):
        return blob[1]

    def m_setattr(it, o, name, v):
        it.setattr(o, name, v)
    models = {('meth', 'DB', 'cursor'): Model('db.cursor', m_cursor), ('meth', 'Cursor', 'execute'): Model('cursor.execute', m_execute),
              'pickle': ModVal('pickle'), ('pickle', 'loads'): Model('pickle.loads', m_loads), 'setattr': Model('setattr', m_setattr)}

    def goals(ctx, res):
        o = st['o']
        getter = prog.find_member('BaseMap', 'use_latlon', kinds=('getter',))
        return [('reopen:flag-visible-through-the-property', b2z(o.f.get('_use_latlon') is stored_flag)),
                ('reopen:metric-follows-the-stored-flag', b2z(metric_consistent(o, bool(stored_flag)))),
                ('reopen:crs-and-name-restored', b2z(o.f.get('crs_lonlat') == 'EPSG:4258' and o.f.get('crs_xy') == 'EPSG:31370'
                                                      and o.f.get('name') == 'stored-name')),
                ('reopen:reads-the-properties-table', b2z('properties' in str(st.get('query', '')).lower()))]
    rep = verify_function(prog, fv, setup, goals, models=models,
                          name=f"SqliteMap.read_properties[stored={stored_flag},ctor={initial_flag},dup={duplicates}]")
    return fv, rep


# ------------------------------------------------------------------------------------------ InMemMap serialize/deserialize
def vc_inmem_roundtrip(prog, use_latlon, with_dir):
    load(prog)
    fs = prog.func(MINMEM, 'InMemMap.serialize')
    fd = prog.func(MINMEM, 'InMemMap.deserialize')
    st = {}
    graph = Obj('GraphDict')
    linked = Obj('LinkedDict')

    def setup(ctx, it):
        o = Obj('InMemMap', name='mapname', graph=graph, use_rtree=False, index_edges=False, crs_lonlat='EPSG:4258',
                crs_xy='EPSG:31370', linked_edges=linked, dir=Obj('PathObj', s='/some/dir') if with_dir else None,
                rtree=None, _use_latlon=None)
        setter = prog.find_member('BaseMap', 'use_latlon', kinds=('setter',))
        it.call_fn(FuncVal(setter[0], MBASE, 'BaseMap'), [o, use_latlon], {})
        st['o'] = o
        data = it.call_fn(fs, [o], {}, force_inline=True)
        st['data'] = data
        return [ClassVal('InMemMap'), data], {}

    def m_path(it, x):
        return x if isinstance(x, Obj) else Obj('PathObj', s=x)
    models = {'Path': Model('Path', m_path), 'pyproj': None, 'rtree': None, 'tqdm': None}

    def goals(ctx, res):
        o = st['o']
        if not isinstance(res, Obj):
            return [('roundtrip:returns-a-map', z3.BoolVal(False))]
        g = [('roundtrip:class', b2z(res.cls == 'InMemMap'))]
        for f in ('name', 'graph', 'use_rtree', 'index_edges', 'crs_lonlat', 'crs_xy', 'linked_edges', 'dir'):
            a, b = o.f.get(f), res.f.get(f, '$missing')
            same = (a is b) if isinstance(a, Obj) or a is None else (a == b)
            g.append((f'roundtrip:field[{f}]', b2z(bool(same))))
        g.append(('roundtrip:use_latlon', b2z(res.f.get('_use_latlon') is use_latlon)))
        g.append(('roundtrip:metric-follows-the-flag', b2z(metric_consistent(res, bool(use_latlon)))))
        return g
    rep = verify_function(prog, fd, setup, goals, models=models, name=f"InMemMap.serialize->deserialize[latlon={use_latlon},dir={with_dir}]")
    return fd, rep


# ------------------------------------------------------------------------------------------ geometry purity of the matcher (C15)
def purity_obligations(prog):
    """Syntactic obligations: the matcher modules obtain every geometric quantity through the map's callables."""
    obs = []
    for mod in (K.BASE, K.DIST, K.SIMPLE):
        prog.load(mod)
        tree = prog.modules[mod]
        imports = [a.name for n in ast.walk(tree) if isinstance(n, (ast.ImportFrom, ast.Import)) for a in n.names]
        srcs = [getattr(n, 'module', '') or '' for n in ast.walk(tree) if isinstance(n, ast.ImportFrom)]
        bad_imp = [x for x in imports + srcs if 'dist_euclidean' in x or 'dist_latlon' in x]
        obs.append(Obligation(f"purity::{mod.split('.')[-1]}::no-direct-import-of-a-metric-module", [], z3.BoolVal(not bad_imp), 'post'))
        bad_calls = []
        for n in ast.walk(tree):
            if isinstance(n, ast.Call) and isinstance(n.func, ast.Attribute) and n.func.attr in FIVE:
                recv = ast.unparse(n.func.value)
                if recv not in ('self.map', 'self.matcher.map'):
                    bad_calls.append(f"{recv}.{n.func.attr}@{n.lineno}")
        obs.append(Obligation(f"purity::{mod.split('.')[-1]}::metric-calls-only-through-the-map", [], z3.BoolVal(not bad_calls), 'post',
                              extra={'offenders': bad_calls}))
        # no coordinate arithmetic: math.hypot / sqrt on coordinates outside the map callables
        raw = [f"{ast.unparse(n.func)}@{n.lineno}" for n in ast.walk(tree) if isinstance(n, ast.Call)
               and ast.unparse(n.func) in ('math.hypot', 'np.linalg.norm', 'math.atan2', 'np.hypot')]
        obs.append(Obligation(f"purity::{mod.split('.')[-1]}::no-own-distance-arithmetic", [], z3.BoolVal(not raw), 'post'))
    return obs


# ------------------------------------------------------------------------------------------ InMemMap spatial queries (C11)
gy = z3.Function('gy', Label, z3.RealSort())
gx = z3.Function('gx', Label, z3.RealSort())


def vc_inmem_closeto(prog, what='nodes', max_elmt_none=True, triple=False):
    """Foreach rule over the scanned nodes (the generator `_items_in_bb` is inlined as a coroutine): for an ARBITRARY node of
    the graph the append-events equal the per-element specification `[(distance, label, coord)] if distance < max_dist else []`;
    soundness and completeness of the query (incl. the box pre-filter) follow; then sort and truncate."""
    load(prog)
    fv = prog.func(MINMEM, f'InMemMap.{what}_closeto')
    st = {}
    md = R('max_dist')
    max_elmt = None if max_elmt_none else I('max_elmt')
    loc = (R('locy'), R('locx'), R('loct')) if triple else (R('locy'), R('locx'))
    loc2 = loc[:2]

    def setup(ctx, it):
        st.clear()

        def val_factory(it_, key):
            def nb_elem(it2):
                b = it2.ctx.fresh('nb', 'L')
                return b, [graph_has(it2, b)]
            return ((gy(key), gx(key)), SymColl(f"nbrs", nb_elem))

        def key_factory(it_):
            return it_.ctx.fresh('node', 'L')
        in_graph = z3.Function('in_graph', Label, z3.BoolSort())

        def graph_has(it_, k):
            return in_graph(k)
        graph = SymDict('graph', val_factory, key_factory, has_hook=lambda it_, k: in_graph(k))
        o = Obj('InMemMap', graph=graph, rtree=None, use_rtree=False, index_edges=False,
                distance=Model('distance', lambda it_, *a, **k: G.callee_distance(it_, None, a, k)),
                distance_point_to_segment=Model('distance_point_to_segment', lambda it_, *a, **k: G.callee_p2s(it_, None, a, k)),
                box_around_point=Model('box_around_point', lambda it_, *a, **k: G.callee_box(it_, None, a, k)))
        st.update(o=o, graph=graph)
        ctx.assume(md >= 0)
        if max_elmt is not None:
            ctx.assume(max_elmt >= 0)
        return [o, loc], {'max_dist': md, 'max_elmt': max_elmt}

    def h_accum_sort(it, acc):
        acc.sorted = getattr(acc, 'sorted', 0) + 1
        acc.sorted_after = len(acc.appended)
        return None

    def h_accum_slice(it, acc, lo, hi):
        acc.sliced = (lo, hi, getattr(acc, 'sorted', 0))
        return acc
    hooks = {('accum_sort',): h_accum_sort, ('slice', 'Accum'): h_accum_slice}

    def end_goals(ctx, why):
        g = []
        begins = [e for e in ctx.events if e.kind == 'iter-begin']
        if not begins or 'generator exhausted' in str(why) and not begins:
            return g
        # the arbitrary graph element is the element of the scan over graph.items()
        scan = [e for e in begins if isinstance(e.elem, tuple) and len(e.elem) == 2 and isinstance(e.elem[1], tuple)]
        if not scan:
            return g
        k = scan[0].elem[0]
        c = (gy(k), gx(k))
        apps = [e for e in ctx.events if e.kind == 'append']
        calls = [e for e in ctx.events if e.kind == 'call']
        if what == 'nodes':
            inr = G.dist2(loc2, c) < md * md
            if len(apps) == 0:
                g.append(('query:complete(every node within the radius is returned; box pre-filter included)', z3.Not(inr)))
            elif len(apps) == 1:
                v = apps[0].value
                dcall = [e for e in calls if e.fn == 'distance']
                ok = isinstance(v, tuple) and len(v) == 3 and len(dcall) >= 1
                g.append(('query:tuple-shape', b2z(ok)))
                if ok:
                    g.append(('query:sound(only nodes within the radius)', inr))
                    g.append(('query:tuple-is-(distance,label,coord)', b2z(zand(eq(v[1], k), eq(v[2], c), eq(v[0], dcall[-1].result),
                                                                                eq(dcall[-1].args[0][:2], loc2), eq(dcall[-1].args[1], c)))))
            else:
                g.append(('query:at-most-one-tuple-per-node', z3.BoolVal(False)))
        else:
            nb = [e for e in begins if e is not scan[0] and not isinstance(e.elem, tuple)]
            if not nb:
                g.append(('query:no-tuple-without-a-neighbour', b2z(len(apps) == 0)))
                # pre-filter: a start node outside the box is skipped with all its edges (finding F2 makes this incomplete)
                if not any(e.kind == 'iter-begin' and e.elem is k or (z3.is_expr(e.elem) and eq(e.elem, k) is True) for e in begins[1:]):
                    b = z3.Const('b!any', Label)
                    seg_in = z3.BoolVal(False)
                    g.append(('edges_closeto:prefilter-complete(no edge of a skipped start node is within the radius)',
                              z3.ForAll([b], z3.Implies(b != k, sq_p2s_ge(loc2, c, (gy(b), gx(b)), md)))))
                return g
            b = nb[-1].elem
            cb = (gy(b), gx(b))
            pcall = [e for e in calls if e.fn == 'distance_point_to_segment']
            if len(apps) == 0:
                if pcall:
                    g.append(('query:complete(edge not returned only if not within the radius)', z3.Or(k == b, z3.Not(pcall[-1].result[0] < md))))
                else:
                    g.append(('query:edge-skipped-only-if-self-loop', k == b))
            elif len(apps) == 1 and pcall:
                v = apps[0].value
                r = pcall[-1].result
                ok = isinstance(v, tuple) and len(v) == 7
                g.append(('query:tuple-shape', b2z(ok)))
                if ok:
                    g.append(('query:sound(only edges within the radius)', z3.And(r[0] < md, k != b)))
                    g.append(('query:tuple-is-(dist,a,ca,b,cb,pi,ti)', b2z(zand(eq(v[0], r[0]), eq(v[1], k), eq(v[2], c), eq(v[3], b), eq(v[4], cb),
                                                                                 eq(v[5], r[1]), eq(v[6], r[2]),
                                                                                 eq(pcall[-1].args[0][:2], loc2), eq(pcall[-1].args[1], c), eq(pcall[-1].args[2], cb)))))
            else:
                g.append(('query:at-most-one-tuple-per-edge', z3.BoolVal(False)))
        return g

    def sq_p2s_ge(p, a, b_, r):
        # every point of segment [a,b] is at least r away from p  (quantified over the segment parameter)
        t = z3.Real('t!seg')
        q = (a[0] + t * (b_[0] - a[0]), a[1] + t * (b_[1] - a[1]))
        return z3.ForAll([t], z3.Implies(z3.And(t >= 0, t <= 1), G.dist2(p, q) >= r * r))

    def goals(ctx, res):
        g = [('result:is-the-accumulated-list', b2z(isinstance(res, Accum)))]
        if isinstance(res, Accum):
            g.append(('result:sorted-once-after-the-scan', b2z(getattr(res, 'sorted', 0) == 1)))
            if max_elmt is None:
                g.append(('result:not-truncated-without-max_elmt', b2z(not hasattr(res, 'sliced'))))
            else:
                sl = getattr(res, 'sliced', None)
                g.append(('result:truncated-to-max_elmt-after-sorting', b2z(sl is not None and sl[0] is None and eq(sl[1], max_elmt) is True and sl[2] == 1)
                          if sl is None or sl[0] is not None else b2z(zand(eq(sl[1], max_elmt), sl[2] == 1))))
        return g
    models = {'time': ModVal('time'), 'rtree': None}
    rep = verify_function(prog, fv, setup, goals, models=models, hooks=hooks, end_goals=end_goals,
                          name=f"InMemMap.{what}_closeto[{'no-max_elmt' if max_elmt_none else 'max_elmt'},{'triple' if triple else 'pair'}]")
    return fv, rep


# ------------------------------------------------------------------------------------------ InMemMap neighbour queries (C04, C12)
gyf = z3.Function('node_y', Label, z3.RealSort())
gxf = z3.Function('node_x', Label, z3.RealSort())
in_graph = z3.Function('label_in_graph', Label, z3.BoolSort())
has_loc = z3.Function('node_has_location', Label, z3.BoolSort())
lists = z3.Function('neighbour_list_of_contains', Label, Label, z3.BoolSort())


def adj_view(a, b):
    """abstract view of the in-memory graph: b is a neighbour of a iff a's list names it and b is a node with a location"""
    return z3.And(lists(a, b), in_graph(b), has_loc(b))


def mk_inmem_graph(ctx_holder=None):
    def val_factory(it_, key):
        def nb_elem(it2):
            b = it2.ctx.fresh('listed', 'L')
            return b, [lists(key, b)]           # a listed label need not be a node of the graph (dangling reference)
        if it_.ctx.choice(2, 'location-missing') == 0:
            it_.ctx.assume(has_loc(key))
            loc = (gyf(key), gxf(key))
        else:
            it_.ctx.assume(z3.Not(has_loc(key)))
            loc = None
        return (loc, SymColl('nbrs', nb_elem))
    return SymDict('graph', val_factory, lambda it_: it_.ctx.fresh('node', 'L'), has_hook=lambda it_, k: in_graph(k))


def vc_inmem_nodes_nbrto(prog):
    """InMemMap.nodes_nbrto against the abstract view (graph of ARBITRARY size, neighbour lists of arbitrary length, dangling
    references and nodes without a location allowed): foreach rule over `nbrs + [node]`; an arbitrary listed label x contributes
    exactly one tuple (x, location of x) iff x is a node with a location, nothing otherwise (a dangling reference raises nothing);
    every label returned is a neighbour in the abstract view or the node itself - the contract the matcher-side proofs ASSUME of
    `map.nodes_nbrto` (orchestration.m_nodes_nbrto) is hereby discharged for the in-memory backend; a label that is not a node
    has no neighbours."""
    load(prog)
    fv = prog.func(MINMEM, 'InMemMap.nodes_nbrto')
    st = {}
    node = z3.Const('queried_node', Label)

    def setup(ctx, it):
        st.clear()
        graph = mk_inmem_graph()
        o = Obj('InMemMap', graph=graph)
        st.update(o=o, graph=graph, pre=dict(o.f))
        return [o, node], {}

    def end_goals(ctx, why):
        begins = [e for e in ctx.events if e.kind == 'iter-begin']
        if not begins:
            return []
        x = begins[-1].elem
        apps = [e for e in ctx.events if e.kind == 'append']
        g = [('nbrs:element-is-a-label', b2z(z3.is_expr(x) and x.sort() == Label))]
        if not (z3.is_expr(x) and x.sort() == Label):
            return g
        g.append(('nbrs:iterates-the-listed-labels-and-the-node-itself', z3.Or(lists(node, x), x == node)))
        present = z3.And(in_graph(x), has_loc(x))
        g.append(('nbrs:a-tuple-only-for-a-node-with-a-location-and-at-most-one', present if len(apps) == 1 else z3.BoolVal(len(apps) == 0)))
        g.append(('nbrs:complete(every listed node with a location is returned)', z3.Not(present) if len(apps) == 0 else z3.BoolVal(True)))
        if len(apps) == 1:
            v = apps[0].value
            ok = isinstance(v, tuple) and len(v) == 2 and isinstance(v[1], tuple) and len(v[1]) == 2
            g.append(('nbrs:tuple-is-(label,location-of-that-label)', b2z(ok and zand(eq(v[0], x), eq(v[1][0], gyf(x)), eq(v[1][1], gxf(x))))))
            if ok and z3.is_expr(v[0]):
                g.append(('nbrs:returned-label-is-a-neighbour-in-the-abstract-view-or-the-node-itself', z3.Or(adj_view(node, v[0]), v[0] == node)))
        g.append(('nbrs:graph-not-written', b2z(not st['graph'].writes and all(st['o'].f.get(k) is st['pre'][k] for k in st['pre']))))
        return g

    def goals(ctx, res):
        g = [('nbrs:graph-not-written', b2z(not st['graph'].writes and all(st['o'].f.get(k) is st['pre'][k] for k in st['pre'])))]
        if isinstance(res, Accum):
            g.append(('nbrs:result-starts-empty', b2z(len(res.init) == 0 and len(res.appended) == 0)))
        else:
            g.append(('nbrs:complete(no neighbours only for a label that is not a node - asked for a node that has a location)', z3.Implies(has_loc(node), z3.And(b2z(isinstance(res, list) and len(res) == 0), z3.Not(in_graph(node))))))
        return g
    rep = verify_function(prog, fv, setup, goals, end_goals=end_goals, name="InMemMap.nodes_nbrto")
    return fv, rep


linked_view = z3.Function('linked_edges_of_contains', Label, Label, Label, Label, z3.BoolSort())


def vc_edges_nbrto(prog, cls='InMemMap', linked='some'):
    """InMemMap.edges_nbrto / the default BaseMap.edges_nbrto against the abstract view.  Callee contracts: nodes_nbrto (proved
    for the in-memory backend in vc_inmem_nodes_nbrto) and node_coordinates (one line, inlined).  For an ARBITRARY tuple the end
    node's neighbour query yields, exactly one edge (l2, location of l2, l3, location of l3) is offered - the edges LEAVING THE
    END NODE of the given edge; for an arbitrary pair (l3, l4) declared as linked to this directed edge exactly one edge
    (l3, loc, l4, loc); nothing else is offered and nothing is written: what the matcher-side proofs assume of
    `map.edges_nbrto` (orchestration.m_edges_nbrto)."""
    load(prog)
    fv = prog.func(MINMEM if cls == 'InMemMap' else MBASE, f'{cls}.edges_nbrto')
    st = {}
    l1, l2 = z3.Const('edge_l1', Label), z3.Const('edge_l2', Label)

    def setup(ctx, it):
        st.clear()
        graph = mk_inmem_graph()

        def linked_val(it_, key):
            def pair(it2):
                a, b = it2.ctx.fresh('lk1', 'L'), it2.ctx.fresh('lk2', 'L')
                return (a, b), [linked_view(key[0], key[1], a, b), in_graph(a), in_graph(b), has_loc(a), has_loc(b)]
            return SymColl('linked-to', pair, ordered=False)
        le = {'none': None, 'empty': {}, 'some': SymDict('linked_edges', linked_val, None)}[linked]
        o = Obj(cls, graph=graph, linked_edges=le)
        st.update(o=o, graph=graph, pre=dict(o.f), q=[])
        ctx.assume(in_graph(l1), in_graph(l2), has_loc(l1), has_loc(l2))      # the edge handed in is an edge of the map
        return [o, (l1, l2)], {}

    def c_nodes_nbrto(it, fv_, args, kw):
        nd = args[1]
        st['q'].append(nd)

        def elem(it_):
            l = it_.ctx.fresh('nbr', 'L')
            return (l, (gyf(l), gxf(l))), [z3.Or(adj_view(nd, l), l == nd), in_graph(l), has_loc(l)]
        return SymColl('nodes_nbrto', elem)

    def c_node_coordinates(it, fv_, args, kw):
        return (gyf(args[1]), gxf(args[1]))

    def frame():
        return b2z(not st['graph'].writes and all(st['o'].f.get(k) is st['pre'][k] for k in st['pre'])
                   and not (isinstance(st['o'].f.get('linked_edges'), SymDict) and st['o'].f['linked_edges'].writes))

    def end_goals(ctx, why):
        begins = [e for e in ctx.events if e.kind == 'iter-begin']
        apps = [e for e in ctx.events if e.kind == 'append']
        if not begins:
            return []
        x = begins[-1].elem
        g = [('enbrs:map-not-written', frame()), ('enbrs:complete(one edge per listed element)', b2z(len(apps) == 1)), ('enbrs:at-most-one-edge-per-listed-element', b2z(len(apps) <= 1))]
        if len(apps) != 1 or not (isinstance(x, tuple) and len(x) == 2):
            return g + [('enbrs:element-shape', b2z(isinstance(x, tuple) and len(x) == 2))]
        v = apps[0].value
        okv = isinstance(v, tuple) and len(v) == 4 and all(isinstance(v[i], tuple) and len(v[i]) == 2 for i in (1, 3)) and all(z3.is_expr(v[i]) for i in (0, 2))
        g.append(('enbrs:tuple-shape-(label,location,label,location)', b2z(okv)))
        if not okv:
            return g
        a, ca, b, cb = v
        g.append(('enbrs:locations-are-the-maps-locations-of-the-labels', z3.And(ca[0] == gyf(a), ca[1] == gxf(a), cb[0] == gyf(b), cb[1] == gxf(b))))
        if isinstance(x[1], tuple):
            # element of the end node's neighbour query: (l3, p3)
            g.append(('enbrs:neighbour-query-is-asked-for-the-END-node', b2z(len(st['q']) == 1 and eq(st['q'][0], l2) is True)))
            g.append(('enbrs:offered-edge-leaves-the-end-node-towards-the-listed-neighbour', z3.And(a == l2, b == x[0])))
            g.append(('enbrs:offered-edge-is-a-move-of-the-abstract-view', z3.And(a == l2, z3.Or(adj_view(l2, b), b == l2))))
        else:
            g.append(('enbrs:linked-edge-is-the-declared-pair', z3.And(a == x[0], b == x[1])))
            g.append(('enbrs:linked-edge-is-declared-for-THIS-directed-edge', linked_view(l1, l2, a, b)))
            g.append(('enbrs:links-only-on-a-backend-that-has-them', b2z(cls == 'InMemMap' and linked == 'some')))
        return g

    def goals(ctx, res):
        g = [('enbrs:map-not-written', frame()),
             ('enbrs:result-is-the-accumulated-list-starting-empty', b2z(isinstance(res, Accum) and len(res.init) == 0 and len(res.appended) == 0) if isinstance(res, Accum)
              else b2z(isinstance(res, list) and len(res) == 0 and False)),
             ('enbrs:neighbour-query-is-asked-for-the-END-node', b2z(len(st['q']) == 1 and eq(st['q'][0], l2) is True))]
        return g
    rep = verify_function(prog, fv, setup, goals, end_goals=end_goals,
                          contracts={f'{cls}.nodes_nbrto': c_nodes_nbrto, f'{cls}.node_coordinates': c_node_coordinates,
                                     'BaseMap.nodes_nbrto': c_nodes_nbrto, 'BaseMap.node_coordinates': c_node_coordinates},
                          name=f"{cls}.edges_nbrto[linked_edges={linked}]")
    return fv, rep
