"""Replay of counter-models of the lattice contracts on the REAL classes (CPython, floats): the model's values are
reified into real BaseMatching / DistanceMatching / LatticeColumn objects (built with the real constructors), the real
function is executed and the run-time form of the contract clause is evaluated."""
import math
import re
import types


def val(model, name, default=0.0):
    v = (model or {}).get(name)
    if v is None:
        return default
    if v in ('true', 'false'):
        return v == 'true'
    try:
        if '/' in v:
            a, b = v.split('/')
            return int(a) / int(b)
        return float(v)
    except Exception:
        return default


class StubMap:
    """map whose metric functions return the values of the counter-model"""
    def __init__(self, d, t=0.5):
        self.d, self.t = d, t
        self.calls = []

    def distance(self, a, b):
        self.calls.append(('distance', a, b))
        return self.d

    def distance_point_to_segment(self, p, s1, s2):
        self.calls.append(('distance_point_to_segment', p, s1, s2))
        return self.d, (0.25, 0.75), self.t

    def distance_segment_to_segment(self, f1, f2, t1, t2):
        self.calls.append(('distance_segment_to_segment', f1, f2, t1, t2))
        return self.d, (0.25, 0.75), (0.5, 0.5), self.t, 0.5


def real_matching(cls, matcher, prefix, model, edge=True, defaults=None):
    from leuvenmapmatching.util.segment import Segment
    d = defaults or {}
    em = Segment('a', (0.0, 0.0), 'b', (1.0, 0.0), (0.5, 0.0), 0.5) if edge else Segment('a', (0.0, 0.0))
    m = cls(matcher, em, Segment('o', (0.5, 0.1)),
            logprob=val(model, prefix + '_lp', d.get('lp', -1.0)), logprobema=val(model, prefix + '_ema', -1.0),
            logprobe=val(model, prefix + '_lpe_', d.get('lp', -1.0)), logprobne=val(model, prefix + '_lpne', 0.0),
            dist_obs=val(model, prefix + '_dist', 0.1), obs=int(val(model, prefix + '_obs', 1)), obs_ne=int(val(model, prefix + '_obsne', 0)),
            stop=bool(val(model, prefix + '_stop', False)), length=int(val(model, prefix + '_len', 2)), delayed=int(val(model, prefix + '_delayed', 0)))
    for k, nm in (('d_s', '_ds'), ('d_o', '_do'), ('lpe', '_lpe'), ('lpt', '_lpt')):
        if hasattr(m, k):
            setattr(m, k, val(model, prefix + nm, 0.0))
    return m


def replay_update(r):
    from leuvenmapmatching.matcher.base import BaseMatching
    from leuvenmapmatching.matcher.distance import DistanceMatching
    name = r.ob.name
    cls = DistanceMatching if 'DistanceMatching' in name else BaseMatching
    a = real_matching(cls, None, 'cur', r.model)
    b = real_matching(cls, None, 'new', r.model)
    b.length = a.length
    pa, pb = real_matching(cls, None, 'cur_pred', r.model), real_matching(cls, None, 'new_pred', r.model)
    a.prev, b.prev = {pa}, {pb}
    slots = [s for c in cls.__mro__ for s in getattr(c, '__slots__', [])]
    before_a = {s: getattr(a, s) for s in slots}
    before_b = {s: getattr(b, s) for s in slots}
    better = (a.stop and not b.stop) or (a.stop == b.stop and a.logprob < b.logprob)
    res = a.update(b)
    bad = []
    if bool(res) != bool(better):
        bad.append(f"returned {res}, keep-the-better says {better}")
    for s in slots:
        if s in ('matcher', 'prev_other'):
            continue
        want = before_b[s] if better else before_a[s]
        if getattr(a, s) is not want and getattr(a, s) != want:
            bad.append(f"slot {s}: {getattr(a, s)!r}, expected {want!r} (from the {'candidate' if better else 'stored entry'})")
    return bool(bad), {'function': f"{cls.__name__}.update", 'stored': {k: repr(v) for k, v in before_a.items() if k not in ('matcher', 'edge_m', 'edge_o', 'prev', 'prev_other')},
                       'candidate': {k: repr(v) for k, v in before_b.items() if k not in ('matcher', 'edge_m', 'edge_o', 'prev', 'prev_other')},
                       'returned': res, 'failed': bad}


def replay_do_stop(r):
    from leuvenmapmatching.matcher.base import BaseMatcher
    m = BaseMatcher.__new__(BaseMatcher)
    m.min_logprob_norm = -math.inf if 'minlp=-inf' in r.ob.name else val(r.model, 'min_lp', -1.0)
    m.max_dist = math.inf if 'maxd=inf' in r.ob.name else val(r.model, 'max_dist', 1.0)
    lpn, d = val(r.model, 'lpn', -1.0), val(r.model, 'dist', 1.0)
    got = m.do_stop(lpn, d, 0.0, 0.0)
    exp = (lpn < m.min_logprob_norm) or (d > m.max_dist)
    return got != exp, {'function': 'BaseMatcher.do_stop', 'min_logprob_norm': m.min_logprob_norm, 'max_dist': m.max_dist,
                        'logprob_norm': lpn, 'dist': d, 'actual': got, 'expected': exp}


def replay_next(r):
    """BaseMatching.next on real objects with a stub map and stub probability functions taken from the model"""
    from leuvenmapmatching.matcher.base import BaseMatcher, BaseMatching
    from leuvenmapmatching.matcher.distance import DistanceMatching
    from leuvenmapmatching.util.segment import Segment
    import logging
    name, model = r.ob.name, r.model or {}
    m = re.search(r'next\[(\w+),(\w+)x(\w+),', name)
    fam, mk, ok = (m.group(1), m.group(2), m.group(3)) if m else ('base', 'edge', 'obs')
    lt = val(model, next((k for k in model if k.startswith('lt!')), 'lt'), -0.1)
    lo = val(model, next((k for k in model if k.startswith('lo!')), 'lo'), -0.1)
    dist = val(model, next((k for k in model if k.startswith('dist!')), 'dist'), 0.5)
    tm = val(model, next((k for k in model if k.startswith('t!')), 't'), 0.5)
    matcher = BaseMatcher.__new__(BaseMatcher)
    matcher.map = StubMap(dist, tm)
    matcher.only_edges = bool(val(model, 'only_edges', True))
    matcher.ne_length_factor_log = val(model, 'nef', math.log(0.75))
    matcher.min_logprob_norm = -math.inf if 'minlp=-inf' in name else val(model, 'min_lp', -10.0)
    matcher.max_dist = math.inf if 'maxd=inf' in name else val(model, 'max_dist', 10.0)
    props_t = {'d_o': 0.1, 'd_s': 0.2, 'lpt': lt} if fam == 'distance' else {}
    props_o = {'lpe': lo} if fam == 'distance' else {}
    calls = []
    matcher.logprob_trans = lambda prev, em, eo, is_prev_ne=False, is_next_ne=False: (calls.append(('trans', is_prev_ne, is_next_ne)) or (lt, dict(props_t)))
    matcher.logprob_obs = lambda d, prev, em, eo, is_ne=False: (calls.append(('obs', d, is_ne)) or (lo, dict(props_o)))
    cls = DistanceMatching if fam == 'distance' else BaseMatching
    me = real_matching(cls, matcher, 'self', model)
    me.stop = False
    em = Segment('m1', (0.0, 0.0)) if mk == 'node' else Segment('m1', (0.0, 0.0), 'm2', (1.0, 0.0))
    eo = Segment('o1', (0.3, 0.1)) if ok == 'obs' else Segment('o1', (0.3, 0.1), 'o2', (0.8, 0.2))
    obs, obs_ne = int(val(model, 'obs', 1)), int(val(model, 'obs_ne', 0))
    debug = bool(val(model, 'debug', False))
    lg = logging.getLogger("be.kuleuven.cs.dtai.mapmatching")
    old = lg.level
    lg.setLevel(logging.DEBUG if debug else logging.ERROR)
    h = logging.NullHandler()
    lg.addHandler(h)
    try:
        res = me.next(em, eo, obs=obs, obs_ne=obs_ne)
    except Exception as e:
        return True, {'function': 'BaseMatching.next', 'raised': repr(e)}
    finally:
        lg.setLevel(old)
        lg.removeHandler(h)
    # run-time form of K-next
    delta = lt + lo
    if obs_ne == 0:
        e_lp, e_lpe, e_lpne, e_len = me.logprob + delta, me.logprob + delta, 0, me.length + 1
    else:
        e_lpe = me.logprobe + matcher.ne_length_factor_log
        e_lpne = min(me.logprobne, delta)
        e_lp, e_len = e_lpe + e_lpne, me.length
    too_close = (mk == 'edge' and ok == 'obs' and not matcher.only_edges and (abs(tm) <= 1e-8 or abs(tm - 1) <= 1e-8))
    S = too_close or (e_lp / e_len < matcher.min_logprob_norm) or (dist > matcher.max_dist)
    bad = []
    if res is None:
        if not (S and not debug):
            bad.append(f"returned None although the candidate is within the cut-offs (or debug is on)")
    else:
        if S and not debug:
            bad.append("returned an object although the candidate is cut off and debug is off")
        chk = [('logprob', e_lp), ('logprobe', e_lpe), ('logprobne', e_lpne), ('length', e_len), ('obs', obs), ('obs_ne', obs_ne),
               ('dist_obs', dist), ('delayed', me.delayed), ('stop', S)]
        for f, want in chk:
            got = getattr(res, f)
            if (isinstance(want, float) and abs(got - want) > 1e-9 * (1 + abs(want))) or (not isinstance(want, float) and got != want):
                bad.append(f"{f}: {got!r}, contract says {want!r}")
        if res.prev != {me} or len(res.prev) != 1:
            bad.append("prev is not exactly {self}")
        mc = matcher.map.calls
        exp_call = {('node', 'obs'): ('distance', em.p1, eo.p1), ('node', 'obsseg'): ('distance_point_to_segment', em.p1, eo.p1, eo.p2),
                    ('edge', 'obs'): ('distance_point_to_segment', eo.p1, em.p1, em.p2),
                    ('edge', 'obsseg'): ('distance_segment_to_segment', em.p1, em.p2, eo.p1, eo.p2)}[(mk, ok)]
        if len(mc) != 1 or tuple(mc[0]) != exp_call:
            bad.append(f"metric call {mc}, contract says {exp_call}")
    return bool(bad), {'function': 'BaseMatching.next', 'scenario': [fam, mk, ok], 'self': {'logprob': me.logprob, 'logprobe': me.logprobe, 'logprobne': me.logprobne,
                                                                                        'length': me.length, 'delayed': me.delayed, 'obs_ne': me.obs_ne},
                       'lt': lt, 'lo': lo, 'dist': dist, 't_m': tm, 'obs': obs, 'obs_ne': obs_ne, 'debug': debug,
                       'min_logprob_norm': matcher.min_logprob_norm, 'max_dist': matcher.max_dist, 'only_edges': matcher.only_edges,
                       'returned': None if res is None else {f: getattr(res, f) for f in ('logprob', 'logprobe', 'logprobne', 'length', 'stop', 'dist_obs', 'delayed')},
                       'failed': bad}


def replay_prune(r):
    """LatticeColumn.prune on a real column built from the counter-model's arrays (finite prefix of the model)"""
    from leuvenmapmatching.matcher.base import LatticeColumn, BaseMatching
    from leuvenmapmatching.util.segment import Segment
    import random
    model = r.model or {}
    # the solver's model may use huge sizes; the defect (if real) shows on small layers as well
    W, E = max(1, min(int(val(model, 'W', 1)), 4)), max(0, min(int(val(model, 'E', 0)), 3))
    with_thr = '[thr' in r.ob.name
    thr = val(model, 'thr', -1.0) if with_thr else None
    rnd = random.Random(0)
    worst = None
    for trial in range(400):
        n = rnd.randint(W + 1, W + 5)
        vals = [rnd.choice([-1.0, -2.0, -2.0, -3.0, -0.5]) for _ in range(n)]
        col = LatticeColumn(0)
        col.o.append({})
        ms = []
        for i, v in enumerate(vals):
            m = BaseMatching(None, Segment(f"a{i}", (0, 0), f"b{i}", (1, 0)), Segment('o', (0, 0)), logprob=v, logprobe=v, logprobne=0,
                             stop=rnd.random() < 0.15, delayed=rnd.choice([E - 1, E, E, E + 1, E + 2]), obs=0)
            col.o[0][m.key] = m
            ms.append(m)
        d0 = [m.delayed for m in ms]
        t = rnd.choice([None, -1.0, -2.0, -2.5]) if with_thr else None
        ret = col.prune(0, W, E, t)
        live = [(m, d) for m, d in zip(ms, d0) if not m.stop]
        bad = []
        if len(live) > W:
            srt = sorted(live, key=lambda x: -x[0].logprob)
            kept = [m for m, d in live if m.delayed <= E]
            post = [m for m, d in live if m.delayed > E]
            if kept and post and min(m.logprob for m in kept) < max(m.logprob for m in post):
                bad.append("a postponed entry is more probable than a kept one")
            wth = srt[W - 1][0].logprob
            if t is None:
                if any(m.logprob >= wth for m in post):
                    bad.append("an entry tied with (or better than) the W-th was postponed")
                if any(m.logprob < wth for m in kept):
                    bad.append("more than the W best plus ties were kept")
            else:
                if any(m.logprob >= wth and m.logprob >= t for m in post):
                    bad.append("an entry at least as good as the W-th and the threshold was postponed")
            for (m, d) in live:
                if m.delayed not in (d, E, E + 1) or (m.delayed == E and d < E) or (m.delayed == E + 1 and d > E + 1):
                    bad.append(f"delayed changed {d} -> {m.delayed}")
        else:
            if any(m.delayed != d for m, d in zip(ms, d0)) or ret != t:
                bad.append("small layer changed")
        if any(m.delayed != d for m, d in zip(ms, d0) if m.stop):
            bad.append("a stopped entry was touched")
        if bad:
            worst = {'function': 'LatticeColumn.prune', 'W': W, 'E': E, 'prune_thr': t, 'scores': vals, 'stop': [m.stop for m in ms],
                     'delayed_before': d0, 'delayed_after': [m.delayed for m in ms], 'returned': ret, 'failed': bad}
            break
    return worst is not None, worst or {'function': 'LatticeColumn.prune', 'note': 'no failing layer among 400 generated layers around the counter-model parameters'}


def replay_upsert(r):
    """run-time form of the upsert contract on a real LatticeColumn: a key that is present, between two other entries; all
    combinations of stop flags and score order (the model only selects the case: the column content is what matters)"""
    from leuvenmapmatching.matcher.base import BaseMatching, LatticeColumn
    from leuvenmapmatching.matcher.distance import DistanceMatching
    from leuvenmapmatching.util.segment import Segment
    cls = DistanceMatching if 'DistanceMatching' in r.ob.name else BaseMatching
    mo = re.search(r'obs_ne=(\d)', r.ob.name)
    ne = int(mo.group(1)) if mo else 0
    clause = re.search(r'::(.*)\[p\d+\]$', r.ob.name)
    clause = clause.group(1) if clause else ''

    def mk(l1, l2, lp, stop):
        return cls(None, Segment(l1, (0.0, 0.0), l2, (1.0, 0.0), (0.5, 0.0), 0.5), Segment('o', (0.5, 0.1)), logprob=lp, logprobema=lp, logprobe=lp,
                   logprobne=0.0, dist_obs=0.1, obs=1, obs_ne=ne, stop=stop, length=2, delayed=0)
    bad = []
    for old_stop in (False, True):
        for new_stop in (False, True):
            for old_lp, new_lp in ((-2.0, -1.0), (-1.0, -2.0), (-1.0, -1.0)):
                col = LatticeColumn(0)
                a, old, c = mk('a', 'b', -1.0, False), mk('b', 'c', old_lp, old_stop), mk('c', 'd', -1.0, False)
                for m in (a, old, c):
                    col.upsert(m)
                cand = mk('b', 'c', new_lp, new_stop)
                res = col.upsert(cand)
                better = (old_stop and not new_stop) or (old_stop == new_stop and old_lp < new_lp)
                order = [m.key[:2] for m in col.o[ne].values()]
                want = [('a', 'b'), ('c', 'd'), ('b', 'c')] if (old_stop and not old.stop) else [('a', 'b'), ('b', 'c'), ('c', 'd')]
                case = f"stored(stop={old_stop}, logprob={old_lp}) candidate(stop={new_stop}, logprob={new_lp})"
                if res is not old or col.o[ne].get(old.key) is not old:
                    bad.append(f"{case}: the stored object was replaced")
                if old.logprob != (new_lp if better else old_lp) or old.stop != (new_stop if better else old_stop):
                    bad.append(f"{case}: content is not the better of the two (logprob {old.logprob}, stop {old.stop})")
                if order != want:
                    bad.append(f"{case}: layer order {order}, expected {want}")
    sel = [b for b in bad if ('order' in b) == ('ordered' in clause)] or bad
    return bool(sel), {'function': 'LatticeColumn.upsert', 'class': cls.__name__, 'layer': ne, 'clause': clause, 'failed': sel[:6]}


def replay_set_delayed(r):
    """real LatticeColumn with two layers; entries whose round lies before, at, one below and after the given one"""
    from leuvenmapmatching.matcher.base import BaseMatching, LatticeColumn
    from leuvenmapmatching.util.segment import Segment
    d = int(val(r.model, 'new_round', 2))
    d = max(-5, min(5, d))
    old = int(val(r.model, 'e_delayed!1', d - 2)) if any(k.startswith('e_delayed') for k in (r.model or {})) else d - 2
    for k, v in (r.model or {}).items():
        if k.startswith('e_delayed'):
            old = int(val(r.model, k, d - 2))
    old = max(-8, min(8, old))
    col = LatticeColumn(0)
    ents = []
    for j, (ne, dl) in enumerate([(0, old), (0, d - 1), (0, d), (1, old), (1, d + 1)]):
        m = BaseMatching(None, Segment(f"a{j}", (0.0, 0.0), f"b{j}", (1.0, 0.0), (0.5, 0.0), 0.5), Segment('o', (0.5, 0.1)), logprob=-1.0 - j,
                         logprobema=-1.0, logprobe=-1.0, logprobne=0.0, dist_obs=0.1, obs=0, obs_ne=ne, stop=False, length=1, delayed=dl)
        col.upsert(m)
        ents.append((m, dl, m.logprob))
    col.set_delayed(d)
    bad = [f"entry {m.key} had round {dl}, has {m.delayed} after set_delayed({d})" for m, dl, lp in ents if m.delayed != d]
    bad += [f"entry {m.key}: log-probability changed" for m, dl, lp in ents if m.logprob != lp]
    return bool(bad), {'function': 'LatticeColumn.set_delayed', 'given_round': d, 'failed': bad}


def replay_widen(r):
    """real SimpleMatcher on an empty planar map whose `match` is shadowed by a recorder (instance attribute): the model's
    widths, the clauses of vc_increase_width evaluated on what the real increase_max_lattice_width did"""
    from leuvenmapmatching.matcher.simple import SimpleMatcher
    from leuvenmapmatching.map.inmem import InMemMap
    wn = max(1, min(50, int(val(r.model, 'W_new', 3))))
    has_old = 'width->width' in r.ob.name
    wo = max(1, min(wn, int(val(r.model, 'W_old', 1)))) if has_old else None
    uniq = bool(val(r.model, 'unique', False))
    m = SimpleMatcher(InMemMap('replay', use_latlon=False), max_lattice_width=wo)
    trace, lattice, tq, ret = [(0.0, 0.0), (1.0, 0.0)], {'sentinel': 1}, (lambda it, **kw: it), object()
    m.path, m.lattice, m.expand_now, m.early_stop_idx = trace, lattice, 4, None
    calls = []

    def rec(*a, **kw):
        b = {'unique': False, 'tqdm': None, 'expand': False}
        b.update(dict(zip(('path', 'unique', 'tqdm', 'expand'), a)))
        b.update(kw)
        calls.append((b, dict(width=m.max_lattice_width, path=m.path, lattice=m.lattice, expand_now=m.expand_now, esi=m.early_stop_idx)))
        return ret
    m.match = rec
    before = {k: v for k, v in m.__dict__.items() if k not in ('max_lattice_width', 'match')}
    try:
        res = m.increase_max_lattice_width(wn, unique=uniq, tqdm=tq)
    except Exception as e:
        return True, {'function': 'BaseMatcher.increase_max_lattice_width', 'old_width': wo, 'new_width': wn, 'failed': [f"raised {e!r}"]}
    bad = []
    if len(calls) != 1:
        bad.append(f"match called {len(calls)} times")
    for b, s in calls[:1]:
        if s['width'] != wn:
            bad.append(f"width at the time match is called: {s['width']}, asked for {wn} (old {wo})")
        if b.get('path') is not trace or s['path'] is not trace:
            bad.append("match not called with the stored trace")
        if b.get('expand') is not True:
            bad.append(f"match called with expand={b.get('expand')!r}: a fresh match, the lattice is rebuilt with the old candidates gone")
        if b.get('unique') is not uniq:
            bad.append("unique not handed on")
        if b.get('tqdm') is not tq:
            bad.append("tqdm not handed on")
        if s['lattice'] is not lattice or s['expand_now'] != 4 or s['esi'] is not None:
            bad.append(f"lattice / round counter / early-stop index touched before match (round {s['expand_now']})")
        if res is not ret:
            bad.append("result is not what match returned")
    if m.max_lattice_width != wn:
        bad.append(f"width after the call: {m.max_lattice_width}, asked for {wn} (old {wo})")
    after = {k: v for k, v in m.__dict__.items() if k not in ('max_lattice_width', 'match')}
    changed = sorted(k for k in before if k not in after or (after[k] is not before[k] and after[k] != before[k]))
    if changed:
        bad.append("another attribute of the matcher was written: " + ", ".join(changed))
    return bool(bad), {'function': 'BaseMatcher.increase_max_lattice_width', 'old_width': wo, 'new_width': wn, 'unique': uniq, 'failed': bad}


def replay_only_nodes(r):
    """the solver's model names only an arbitrary iteration; a concrete failing input for the real node_path_to_only_nodes is
    searched among ALL state sequences of length <= 3 over three labels (nodes and edges mixed), against the specification of
    vc_only_nodes written out as a reference function"""
    import itertools
    from leuvenmapmatching.matcher.simple import SimpleMatcher
    from leuvenmapmatching.map.inmem import InMemMap
    m = SimpleMatcher(InMemMap('replay', use_latlon=False))
    jumps = 'jumps allowed' in r.ob.name

    def ref(path):
        first = path[0]
        out = list(first) if isinstance(first, tuple) else [first]
        for prev, cur in zip(path, path[1:]):
            p = out[-1]
            if cur == prev:
                continue
            if not isinstance(cur, tuple):
                if cur != p:
                    out.append(cur)
            elif p in cur:
                other = cur[1] if cur[0] == p else cur[0]
                if other != p:
                    out.append(other)
            elif not jumps:
                return 'raises'
            else:
                out.extend(cur)
        return out
    states = [0, 1, 2] + [(a, b) for a in range(3) for b in range(3)]
    for n in (1, 2, 3):
        for path in itertools.product(states, repeat=n):
            want = ref(list(path))
            try:
                got = m.node_path_to_only_nodes(list(path), allow_jumps=jumps)
            except Exception as e:
                got = 'raises'
            if got != want:
                return True, {'function': 'BaseMatcher.node_path_to_only_nodes', 'allow_jumps': jumps, 'states': [list(x) if isinstance(x, tuple) else x for x in path],
                              'returned': got, 'nodes_only_view_should_be': want}
    return False, {'function': 'BaseMatcher.node_path_to_only_nodes', 'note': 'no failing sequence of <= 3 states over 3 labels'}


def replay_get_path(r):
    """real SimpleMatcher whose stored state sequence is a walk over four nodes, first / last matched position before and beyond
    the middle of the edge: every accessor of the nodes-only view must return a contiguous part of the converted list"""
    from types import SimpleNamespace as NS
    from leuvenmapmatching.matcher.simple import SimpleMatcher
    from leuvenmapmatching.map.inmem import InMemMap
    bad = []
    for states in ([(0, 1), (1, 2), (2, 3)], [0, (0, 1), 1, (1, 2), 2], [(0, 1), (1, 2), (2, 3), (3, 4), (4, 5)]):
        for t_first in (0.25, 0.75):
            for t_last in (0.25, 0.75):
                m = SimpleMatcher(InMemMap('replay', use_latlon=False))
                m.node_path = list(states)
                m.lattice_best = [NS(edge_m=NS(ti=(t_first if i == 0 else t_last if i == len(states) - 1 else 0.5), p2=(0, 0))) for i in range(len(states))]
                conv = m.node_path_to_only_nodes(list(states))
                for nm, f in (('get_path()', lambda: m.get_path()), ('get_path(only_closest=False)', lambda: m.get_path(only_closest=False)),
                              ('path_pred_onlynodes', lambda: m.path_pred_onlynodes), ('path_pred_onlynodes_withjumps', lambda: m.path_pred_onlynodes_withjumps)):
                    try:
                        got = f()
                    except Exception as e:
                        bad.append(f"{nm} on states {states}: raised {e!r}")
                        continue
                    part = isinstance(got, list) and any(conv[i:i + len(got)] == got for i in range(len(conv) + 1))
                    if not part or m.node_path != list(states):
                        bad.append(f"{nm} on states {states} (first ti {t_first}, last ti {t_last}): {got}; the nodes-only view of the states is {conv}")
    return bool(bad), {'function': 'BaseMatcher.get_path / path_pred_onlynodes', 'failed': bad[:6]}


def replay_inmem_nbrs(r):
    """real InMemMap objects over three labels (neighbour lists with dangling references, a node without a location, one declared
    link): nodes_nbrto / edges_nbrto of every node / edge against the abstract view written out as a reference"""
    from leuvenmapmatching.map.inmem import InMemMap
    from leuvenmapmatching.map.base import BaseMap
    bad = []
    locs = {0: (0.0, 0.0), 1: (0.0, 1.0), 2: (1.0, 1.0)}
    graphs = [{0: (locs[0], [1]), 1: (locs[1], [0, 2]), 2: (locs[2], [])},
              {0: (locs[0], [1, 7]), 1: (locs[1], [2, 1]), 2: (None, [0])},
              {0: (locs[0], [2, 1]), 1: (locs[1], [0]), 2: (locs[2], [1, 0])}]
    for gi, g in enumerate(graphs):
        for linked in (None, {(0, 1): {(2, 1)}} if gi == 2 else {}):
            m = InMemMap(f'replay{gi}', use_latlon=False, graph={k: (v[0], list(v[1])) for k, v in g.items()}, linked_edges=linked)
            ref_n = lambda n: [(b, g[b][0]) for b in g[n][1] + [n] if b in g and g[b][0] is not None] if n in g else []
            for n in list(g) + [9]:
                if n in g and g[n][0] is None:
                    continue
                try:
                    got = m.nodes_nbrto(n)
                except Exception as e:
                    got = f'raised {e!r}'
                want = ref_n(n)
                if not isinstance(got, list) or set(got) - set(want) or ('complete' in r.ob.name and set(want) - set(got)):
                    bad.append(f"graph {g}: nodes_nbrto({n}) = {got}, abstract view {want}")
            for a in g:
                for b in g[a][1]:
                    if b not in g or g[a][0] is None or g[b][0] is None:
                        continue
                    want = [(b, g[b][0], c, pc) for c, pc in ref_n(b)] + [(c, g[c][0], d, g[d][0]) for c, d in sorted((linked or {}).get((a, b), []))]
                    for nm, f in (('InMemMap.edges_nbrto', lambda: m.edges_nbrto((a, b))), ('BaseMap.edges_nbrto', lambda: BaseMap.edges_nbrto(m, (a, b)))):
                        w = want if nm.startswith('InMem') else want[:len(ref_n(b))]
                        try:
                            got = f()
                        except Exception as e:
                            got = f'raised {e!r}'
                        if not isinstance(got, list) or set(got) - set(w) or ('complete' in r.ob.name and set(w) - set(got)):
                            bad.append(f"graph {g}, links {linked}: {nm}(({a}, {b})) = {got}, abstract view {w}")
    return bool(bad), {'function': 'InMemMap.nodes_nbrto / edges_nbrto', 'failed': bad[:6]}


def replayer(r):
    n = r.ob.name
    if n.startswith('InMemMap.nodes_nbrto') or n.startswith('InMemMap.edges_nbrto') or n.startswith('BaseMap.edges_nbrto'):
        return replay_inmem_nbrs(r)
    if n.startswith('BaseMatcher.get_path') or n.startswith('BaseMatcher.path_pred_onlynodes'):
        return replay_get_path(r)
    if n.startswith('BaseMatcher.node_path_to_only_nodes'):
        return replay_only_nodes(r)
    if n.startswith('BaseMatcher.increase_max_lattice_width'):
        return replay_widen(r)
    if n.startswith('LatticeColumn.set_delayed'):
        return replay_set_delayed(r)
    if n.startswith('LatticeColumn.upsert'):
        return replay_upsert(r)
    if n.startswith('BaseMatching.update'):
        return replay_update(r)
    if n.startswith('BaseMatcher.do_stop'):
        return replay_do_stop(r)
    if n.startswith('BaseMatching.next'):
        return replay_next(r)
    if n.startswith('LatticeColumn.prune'):
        return replay_prune(r)
    return False, {'note': 'no real-code replayer for this function; the obligation name and the solver model stand as the witness'}
