"""Contract of BaseMatcher._match_non_emitting_states: the loop over non-emitting LEVELS between two observations
(C07 which entries are continued / when the search stops, C06 order of the steps, C17 bound on the depth)."""
import ast
import z3
from pyvc.values import *
from pyvc.interp import Event, zand, zor, eq, Obligation, truth
from pyvc.verify import verify_function
from pyvc.models import Model
from contracts import lattice as K

R, I, B = z3.Real, z3.Int, z3.Bool
IntS = z3.IntSort()
ptf = z3.Function('trace_point', IntS, z3.RealSort())


def b2z(x):
    return z3.BoolVal(x) if isinstance(x, bool) else x


def vc_ne_levels(prog, width=False, expand=False):
    fv = prog.func(K.BASE, 'BaseMatcher._match_non_emitting_states')
    st = {}
    obs_idx, n_path, maxnb = I('obs_idx'), I('len_path'), I('maxnb')

    def setup(ctx, it):
        st.clear()
        m = K.mk_matcher('BaseMatcher')
        m.f['max_lattice_width'] = I('W') if width else None
        m.f['non_emitting_states_maxnb'] = maxnb
        m.f['lattice'] = Obj('Lattice', cols={})
        m.f['path'] = Obj('Path')
        ctx.assume(obs_idx >= 0, obs_idx < n_path, maxnb >= 0, m.f['expand_now'] >= 0)
        if width:
            ctx.assume(I('W') >= 1)
        st.update(m=m, events=[], levels=[])
        return [m, obs_idx], {'expand': expand}

    # ---- world
    def col(it, lat, i):
        key = z3.simplify(to_z3(i)).sexpr()
        if key not in lat.f['cols']:
            lat.f['cols'][key] = Obj('Column', idx=to_z3(i))
        return lat.f['cols'][key]

    def m_values(it, c, k=None):
        return Obj('LayerView', col=c, depth=k)

    def m_prune(it, c, *a, **kw):
        it.ctx.events.append(Event('prune', col=c, args=a, kw=kw, loops=list(it.ctx.loop_stack)))
        return it.ctx.fresh('thr', 'R')

    def selection(it, view):
        """dict(...) / set(...) over a generator expression on a lattice layer: the filter is evaluated on an ARBITRARY entry"""
        if not (isinstance(view, tuple) and view and view[0] == 'view' and isinstance(view[1], Obj) and view[1].cls == 'LayerView'):
            raise Unsupported("selection over something else than a lattice layer")
        _, src, target, ifs, elt, env, kind = view
        e = K.mk_matching(f"sel{len(st.setdefault('sels', []))}", st['m'], 'BaseMatching', edge_m=K.mk_segment('s_em', False, True),
                          edge_o=K.mk_segment('s_eo', True))
        e.f['stop'] = it.ctx.fresh('s_stop', 'B')
        e.f['delayed'] = it.ctx.fresh('s_delayed', 'I')
        env2 = dict(env)
        it.assign(target, (it.ctx.fresh('sel_key', 'I'), e) if src.f.get('pairs') else e, env2)
        cond = z3.BoolVal(True)
        sub = it.ctx
        # evaluate the filter without forking the path: conditions are combined symbolically
        for c in ifs:
            if 'self._skip_ne_states' in ast.unparse(c):
                cond = z3.And(cond, z3.Bool(f"skip_ne!{len(st['sels'])}"))
                # the other conjuncts of this filter are still evaluated
                c = ast.parse(ast.unparse(c).replace(' and self._skip_ne_states(m)', ''), mode='eval').body
            cond = z3.And(cond, b2z(truth(sub, it.ev(c, env2))))
        lv = Obj('Level', n=it.ctx.fresh('level_n', 'I'), depth=(src.f['depth'] if src.f.get('of_level') is not None else 0), of=src, cond=cond,
                 entry=e, elt=ast.unparse(elt))
        it.ctx.assume(lv.f['n'] >= 0)
        st['sels'].append(lv)
        return lv

    def c_inner(it, fv_, args, kw):
        lv = Obj('Level', n=it.ctx.fresh('level_n', 'I'), depth=args[5])
        it.ctx.assume(lv.f['n'] >= 0)
        it.ctx.events.append(Event('inner', args=args[1:], result=lv, loops=list(it.ctx.loop_stack)))
        return lv

    def c_end(it, fv_, args, kw):
        it.ctx.events.append(Event('end', args=args[1:], kw=kw, loops=list(it.ctx.loop_stack)))
        return None
    models = dict(K.base_models())
    models.update({('meth', 'Column', 'values'): Model('values', m_values), ('meth', 'Column', 'prune'): Model('prune', m_prune),
                   # a level set is a dict: views on it can be filtered again (the result is ANOTHER set, see the identity clauses)
                   ('meth', 'Level', 'items'): Model('dict.items', lambda it, lv: Obj('LayerView', col=None, depth=lv.f['depth'], of_level=lv, pairs=True)),
                   ('meth', 'Level', 'values'): Model('dict.values', lambda it, lv: Obj('LayerView', col=None, depth=lv.f['depth'], of_level=lv))})
    hooks = {('len', 'Path'): lambda it, p: n_path, ('index', 'Path'): lambda it, p, i: ('pt', ptf(to_z3(i))),
             ('index', 'Lattice'): col, ('dict',): selection, ('set',): selection,
             ('len', 'Level'): lambda it, lv: lv.f['n']}
    contracts = {'BaseMatcher._match_non_emitting_states_inner': c_inner, 'BaseMatcher._match_non_emitting_states_end': c_end}

    # ---- the level loop
    def w_inv(it, env):
        lv = env.get('cur_lattice')
        ok = isinstance(lv, Obj) and lv.cls == 'Level'
        out = [('level-set-is-a-level', b2z(ok)), ('depth-counter-non-negative', to_z3(env['nb_ne']) >= 0)]
        if ok:
            out.append(('level-set-belongs-to-the-current-depth', b2z(eq(lv.f['depth'], env['nb_ne']))))
        return out

    def w_havoc(it, env, pre):
        nb = it.ctx.fresh('nb_ne', 'I')
        env['nb_ne'] = nb
        lv = Obj('Level', n=it.ctx.fresh('level_n', 'I'), depth=nb)
        it.ctx.assume(lv.f['n'] >= 0)
        env['cur_lattice'] = lv
        if 'prune_thr' in env:
            env['prune_thr'] = None if it.ctx.choice(2, 'thr-none') == 0 else it.ctx.fresh('prune_thr', 'R')
        st['head'] = (lv, nb, env.get('prune_thr'))

    def w_body_post(it, env, pre, elem, events, how):
        lv0, nb0, thr0 = st['head']
        m = st['m']
        ob = lambda name, f: it.ctx.oblige(name, b2z(f), kind='post')
        ob("levels:body-entered-only-with-entries-left-and-below-the-depth-bound", z3.And(lv0.f['n'] > 0, nb0 < maxnb))
        ob("levels:depth-counter-advances-by-one", to_z3(env['nb_ne']) == nb0 + 1)
        evs = [e for e in events if e.kind in ('inner', 'prune', 'end')]
        kinds = [e.kind for e in evs]
        want = ['inner', 'prune', 'end', 'prune'] if width else ['inner', 'end']
        ob("levels:steps-of-one-level-in-order(inner, prune of this layer, link to next observation, prune of the next column)", kinds == want)
        if kinds != want:
            return
        inner = evs[0]
        end = evs[2] if width else evs[1]
        a = inner.args
        ob("levels:inner-step-gets-the-previous-level-this-observation-and-the-new-depth",
           zand(a[0] is lv0, eq(a[1], obs_idx), eq(a[4], nb0 + 1)))
        lk = end.args[0]
        if lk is inner.result:
            whole = True
        elif isinstance(lk, Obj) and lk.cls == 'Level' and isinstance(lk.f.get('of'), Obj) and lk.f['of'].f.get('of_level') is inner.result:
            # a filtered view of the level is fine as long as it keeps every live entry of this round (the only ones the link uses)
            e_ = lk.f['entry']
            whole = z3.Implies(z3.And(z3.Not(e_.f['stop']), e_.f['delayed'] == m.f['expand_now']), lk.f['cond'])
        else:
            whole = False
        ob("levels:every-live-entry-of-the-level-is-linked-to-the-next-observation", zand(whole, eq(end.args[1], obs_idx + 1),
                                                                                         eq(b2z(end.kw.get('expand', False)), b2z(expand))))
        ob("levels:the-whole-level-is-continued-at-the-next-depth", env.get('cur_lattice') is inner.result)
        if width:
            p1, p2 = evs[1], evs[3]
            ob("levels:this-layer-is-pruned-to-the-width-in-this-round", zand(eq(p1.col.f['idx'], obs_idx), eq(p1.args[0], nb0 + 1),
                                                                             eq(p1.args[1], m.f['max_lattice_width']), eq(p1.args[2], m.f['expand_now']),
                                                                             (p1.args[3] is None) if thr0 is None else eq(p1.args[3], thr0)))
            ob("levels:next-column-is-pruned-after-linking", zand(eq(p2.col.f['idx'], obs_idx + 1), eq(p2.args[0], 0),
                                                                 eq(p2.args[1], m.f['max_lattice_width']), eq(p2.args[2], m.f['expand_now'])))

    def w_exit(it, env, pre):
        lv0, nb0, thr0 = st['head']
        it.ctx.oblige("levels:search-stops-only-when-a-level-is-empty-or-the-depth-bound-is-reached", z3.Or(lv0.f['n'] <= 0, nb0 >= maxnb), kind='post')
        st['exited'] = len(it.ctx.events)
    loops_ast = sorted([x for x in ast.walk(fv.node) if isinstance(x, (ast.For, ast.While))], key=lambda x: (x.lineno, x.col_offset))
    loops = {}
    for i, x in enumerate(loops_ast):
        if isinstance(x, ast.While):
            loops[(fv.qual, i)] = {'inv': w_inv, 'havoc': w_havoc, 'body_post': w_body_post, 'on_exit': w_exit}

    def goals(ctx, res):
        m = st['m']
        g = [('levels:returns-nothing', b2z(res is None))]
        sels = st.get('sels', [])
        g.append(('select:three-selections(first level, best known states, states to skip)', b2z(len(sels) >= 3)))
        if len(sels) >= 3:
            l0, best, skip = sels[:3]
            e = l0.f['entry']
            due = z3.And(z3.Not(e.f['stop']), e.f['delayed'] == m.f['expand_now']) if expand else z3.And(z3.Not(e.f['stop']), e.f['delayed'] <= 0)
            g.append(('select:first-level-is-the-emitting-layer-of-this-observation', b2z(zand(eq(l0.f['of'].f['col'].f['idx'], obs_idx), eq(l0.f['of'].f['depth'], 0)))))
            g.append(('select:first-level-holds-exactly-the-live-entries-due-in-this-round', l0.f['cond'] == due))
            g.append(('select:best-known-states-are-the-live-emitting-entries-of-the-next-observation',
                      z3.And(b2z(zand(eq(best.f['of'].f['col'].f['idx'], obs_idx + 1), eq(best.f['of'].f['depth'], 0))),
                             best.f['cond'] == z3.Not(best.f['entry'].f['stop']))))
        # after the loop: the next column is pruned once more when a width is set
        tail = [e for e in ctx.events[st.get('exited', 0):] if e.kind in ('inner', 'prune', 'end')]
        if width:
            g.append(('levels:next-column-pruned-at-the-end', b2z(zand(eq(tail[0].col.f['idx'], obs_idx + 1), eq(tail[0].args[0], 0),
                                                                       eq(tail[0].args[1], m.f['max_lattice_width']), eq(tail[0].args[2], m.f['expand_now'])))
                      if len(tail) == 1 and tail[0].kind == 'prune' else z3.BoolVal(False)))
        else:
            g.append(('levels:no-pruning-without-a-width', b2z(len(tail) == 0 and not any(e.kind == 'prune' for e in ctx.events))))
        return g
    rep = verify_function(prog, fv, setup, goals, models=models, hooks=hooks, contracts=contracts, loops=loops,
                          name=f"BaseMatcher._match_non_emitting_states[{'width' if width else 'no width'},{'expand' if expand else 'fresh'}]")
    return fv, rep


def vc_node_in_prev_ne(prog, state_kind='edge'):
    """BaseMatcher._node_in_prev_ne (recursive walk back over the non-emitting chain of one observation; predecessor sets of
    arbitrary size, foreach rule; the recursive call is a callee contract).  Under the lattice invariant (C09: a predecessor
    for the same observation sits exactly one non-emitting layer lower) every recursive call goes to an entry of the same
    observation with a strictly smaller, still positive depth: the recursion depth is bounded by the non-emitting depth of
    the entry it starts from (C17: no unbounded recursion)."""
    fv = prog.func(K.BASE, 'BaseMatcher._node_in_prev_ne')
    st = {}

    def setup(ctx, it):
        st.clear()
        matcher = K.mk_matcher('BaseMatcher')
        me = K.mk_matching('cur', matcher, 'BaseMatching', edge_m=K.mk_segment('cur_em', False, state_kind == 'edge'), edge_o=K.mk_segment('cur_eo', True))
        ctx.assume(me.f['obs_ne'] >= 0)

        def pred(it_):
            p = K.mk_matching(f"pred{len(st.setdefault('preds', []))}", matcher, 'BaseMatching',
                              edge_m=K.mk_segment('p_em', False, state_kind == 'edge'), edge_o=K.mk_segment('p_eo', True))
            st['preds'].append(p)
            # lattice invariant (C09, proved for next/first/update/upsert): same observation -> exactly one layer lower
            return p, [p.f['obs_ne'] >= 0, z3.Implies(p.f['obs'] == me.f['obs'], p.f['obs_ne'] == me.f['obs_ne'] - 1)]
        me.f['prev'] = SymColl('prev', pred, ordered=False)

        def other(it_):
            # a predecessor that lost against the best one at some time: any entry at all
            o = K.mk_matching(f"other{len(st.setdefault('others', []))}", matcher, 'BaseMatching',
                              edge_m=K.mk_segment('o_em', False, state_kind == 'edge'), edge_o=K.mk_segment('o_eo', True))
            st['others'].append(o)
            return o, [o.f['obs_ne'] >= 0]
        me.f['prev_other'] = SymColl('prev_other', other, ordered=False)
        st.update(me=me, calls=[], matcher=matcher)
        return [matcher, me, z3.Const('label', Label)], {}

    def c_rec(it, fv_, args, kw):
        st['calls'].append(args[1])
        return it.ctx.fresh('visited_further_back', 'B')

    def end_goals(ctx, why):
        return goals(ctx, None)

    def goals(ctx, res):
        me = st['me']
        g = [('visited:at-most-one-recursive-call-per-predecessor', b2z(len(st['calls']) <= 1))]
        walked = [e.elem for e in ctx.events if e.kind == 'iter-begin']
        g.append(('visited:only-the-best-predecessors-are-walked(the answer cannot depend on the hash order of a larger set)',
                  b2z(all(any(w is p for p in st.get('preds', [])) for w in walked))))
        for c in st['calls']:
            isp = isinstance(c, Obj) and any(c is p for p in st.get('preds', []))
            g.append(('visited:recursion-only-into-a-predecessor', b2z(isp)))
            if isp:
                g.append(('visited:recursion-stays-within-the-observation-and-goes-strictly-down',
                          z3.And(c.f['obs'] == me.f['obs'], c.f['obs_ne'] < me.f['obs_ne'], c.f['obs_ne'] >= 1)))
        return g
    rep = verify_function(prog, fv, setup, goals, models=K.base_models(), contracts={'BaseMatcher._node_in_prev_ne': c_rec},
                          end_goals=end_goals, name=f"BaseMatcher._node_in_prev_ne[{state_kind}]")
    return fv, rep


def vc_ne_depth_bound(prog):
    """The default bound on the number of non-emitting levels is a constant set in BaseMatcher.__init__; the recursion above
    uses one interpreter frame per level.  Assumption (listed in the evidence): CPython's default recursion limit (1000) and
    at most 200 frames used by the caller and by the matcher's own call chain."""
    import sys
    cls = prog.classes['BaseMatcher'][0] if isinstance(prog.classes['BaseMatcher'], tuple) else None
    fvi = prog.func(K.BASE, 'BaseMatcher.__init__')
    vals = []
    for n in ast.walk(fvi.node):
        if isinstance(n, ast.Assign) and any(isinstance(t, ast.Attribute) and t.attr == 'non_emitting_states_maxnb' for t in n.targets):
            vals.append(n.value)
    from pyvc.verify import FnReport
    rep = FnReport('BaseMatcher.__init__[non_emitting_states_maxnb]')
    rep.path_pcs = [('ret', [])]
    if len(vals) != 1 or not (isinstance(vals[0], ast.Constant) and isinstance(vals[0].value, int)):
        rep.unsupported.append("non_emitting_states_maxnb is not set to one integer constant in __init__")
        return fvi, rep
    c = vals[0].value
    rep.obligations.append(Obligation(f"{rep.name}::depth:default-bound-leaves-stack-headroom(bound + 200 <= 1000)[p0]", [],
                                      z3.IntVal(c) + 200 <= z3.IntVal(1000), 'post', extra={'clause': 'depth:default-bound-leaves-stack-headroom', 'value': c}))
    rep.obligations.append(Obligation(f"{rep.name}::depth:default-bound-is-positive[p0]", [], z3.IntVal(c) >= 1, 'post'))
    return fvi, rep


def vc_matcher_init(prog):
    """BaseMatcher.__init__ (every combination of given / omitted optional cut-offs): the thresholds the matcher works with are
    the ones the caller gave - max_dist or unbounded, max_dist_init or max_dist, log(min_prob_norm) or unbounded - whatever the
    other switches (non_emitting_states, width, only_edges) say; the non-emitting noise defaults to the emitting one; a fresh
    matcher is in round 0 without a lattice.  (C05 cut-offs are the caller's; C06/C07: flags do not change the model.)"""
    from pyvc.interp import INF
    fv = prog.func(K.BASE, 'BaseMatcher.__init__')
    st = {}

    def setup(ctx, it):
        st.clear()
        opt = lambda nm: None if ctx.choice(2, nm + '-given') == 0 else R(nm)
        a = {'max_dist': opt('max_dist'), 'max_dist_init': opt('max_dist_init'), 'min_prob_norm': opt('min_prob_norm'), 'obs_noise_ne': opt('obs_noise_ne')}
        for k in ('max_dist', 'max_dist_init', 'obs_noise_ne'):
            if a[k] is not None:
                ctx.assume(a[k] > 0)
        if a['min_prob_norm'] is not None:
            ctx.assume(a['min_prob_norm'] > 0, a['min_prob_norm'] <= 1)
        ctx.assume(R('obs_noise') > 0, R('ne_len_factor') > 0, R('ne_len_factor') <= 1)
        me = Obj('BaseMatcher')
        me.tag = 'matcher'
        st.update(me=me, a=a, logs=[])
        kw = dict(a, obs_noise=R('obs_noise'), non_emitting_states=B('non_emitting_states'), max_lattice_width=(None if ctx.choice(2, 'width-given') == 0 else I('W')),
                  only_edges=B('only_edges'), non_emitting_length_factor=R('ne_len_factor'))
        return [me, Obj('Map')], kw

    def m_log(it, x):
        r = it.ctx.fresh('log', 'R')
        x = to_z3(x)
        it.ctx.assume(z3.Implies(x <= 1, r <= 0), z3.Implies(x == 1, r == 0))
        st['logs'].append((x, r))
        return r
    models = dict(K.base_models())
    models[('math', 'log')] = Model('math.log', m_log)

    def isinf(v, sign):
        return isinstance(v, float) and v == sign * INF

    def goals(ctx, res):
        me, a = st['me'], st['a']
        f = me.f
        logof = lambda x: next((r for (y, r) in st['logs'] if eq(y, x) is True or (z3.is_expr(y) and z3.is_expr(x) and y.eq(x))), None)
        g = [('init:returns-nothing', b2z(res is None))]
        g.append(('init:max_dist-is-the-given-one-or-unbounded', b2z(eq(f.get('max_dist'), a['max_dist'])) if a['max_dist'] is not None else b2z(isinf(f.get('max_dist'), 1))))
        g.append(('init:max_dist_init-is-the-given-one-or-max_dist',
                  b2z(eq(f.get('max_dist_init'), a['max_dist_init'])) if a['max_dist_init'] is not None else
                  (b2z(eq(f.get('max_dist_init'), a['max_dist'])) if a['max_dist'] is not None else b2z(isinf(f.get('max_dist_init'), 1)))))
        if a['min_prob_norm'] is not None:
            lg = logof(a['min_prob_norm'])
            g.append(('init:min_logprob_norm-is-the-logarithm-of-the-given-probability', b2z(lg is not None and eq(f.get('min_logprob_norm'), lg))))
        else:
            g.append(('init:min_logprob_norm-unbounded-when-not-given', b2z(isinf(f.get('min_logprob_norm'), -1))))
        g.append(('init:non-emitting-noise-defaults-to-the-emitting-noise',
                  b2z(eq(f.get('obs_noise_ne'), a['obs_noise_ne'] if a['obs_noise_ne'] is not None else R('obs_noise')))))
        g.append(('init:emitting-noise-stored', b2z(eq(f.get('obs_noise'), R('obs_noise')))))
        lf = logof(R('ne_len_factor'))
        g.append(('init:length-factor-is-a-log-probability', z3.And(b2z(lf is not None and eq(f.get('ne_length_factor_log'), lf)), to_z3(f.get('ne_length_factor_log', 1)) <= 0)))
        g.append(('init:switches-stored-as-given', b2z(zand(eq(b2z(f.get('non_emitting_states')), B('non_emitting_states')), eq(b2z(f.get('only_edges')), B('only_edges'))))))
        g.append(('init:fresh-matcher-is-in-round-0-without-a-lattice', b2z(zand(eq(f.get('expand_now'), 0), f.get('lattice', 0) is None, f.get('early_stop_idx', 0) is None,
                                                                             f.get('path', 0) is None))))
        return g
    rep = verify_function(prog, fv, setup, goals, models=models, name="BaseMatcher.__init__")
    return fv, rep
