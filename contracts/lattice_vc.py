"""Verification-condition builders for the lattice functions (used by several property checks).
Every builder explores the REAL source of the function (re-read from /repo) and returns an FnReport whose
obligations are named  <function>[scenario]::<clause-group>:<clause>[pN]."""
import z3
from pyvc.values import *
from pyvc.interp import Event, zand, zor, znot, eq, INF, Obligation
from pyvc.verify import verify_function
from pyvc.models import Model, zabs
from contracts import lattice as K

R, I, B = z3.Real, z3.Int, z3.Bool
TOL = z3.RealVal('1/100000000')


def zmin(a, b):
    return z3.If(b < a, b, a)


def b2z(x):
    return z3.BoolVal(x) if isinstance(x, bool) else x


# =============================================================================================== BaseMatching.next
def vc_next(prog, family='base', mpt=True, opt=True, max_dist_inf=False, min_lp_inf=False, preset_proj=False):
    """K-next.  family: 'base' (BaseMatching, no props) or 'distance' (DistanceMatching, props d_o,d_s,lpt,lpe)."""
    fv = prog.func(K.BASE, 'BaseMatching.next')
    mcls = 'DistanceMatcher' if family == 'distance' else 'BaseMatcher'
    ecls = 'DistanceMatching' if family == 'distance' else 'BaseMatching'
    scen = f"{family},{'node' if mpt else 'edge'}x{'obs' if opt else 'obsseg'},{'maxd=inf' if max_dist_inf else 'maxd'},{'minlp=-inf' if min_lp_inf else 'minlp'}{',preset-projection' if preset_proj else ''}"
    st = {}

    def setup(ctx, it):
        matcher = K.mk_matcher(mcls, max_dist_inf, min_lp_inf)
        em0 = K.mk_segment('pm', True)
        me = K.mk_matching('self', matcher, ecls, edge_m=em0, edge_o=K.mk_segment('po', True), stop=False)
        edge_m, edge_o = K.mk_segment('m', mpt, with_proj=preset_proj), K.mk_segment('o', opt, with_proj=preset_proj)
        obs, obs_ne = I('obs'), I('obs_ne')
        ctx.assume(*K.matcher_requires(matcher))
        ctx.assume(*K.matching_invariant(me))
        ctx.assume(obs >= 0, obs_ne >= 0)
        st.update(matcher=matcher, me=me, edge_m=edge_m, edge_o=edge_o, obs=obs, obs_ne=obs_ne,
                  me0={k: me.f[k] for k in me.f})
        return [me, edge_m, edge_o], {'obs': obs, 'obs_ne': obs_ne}

    def goals(ctx, res):
        matcher, me, edge_m, edge_o, obs, obs_ne = (st[k] for k in ('matcher', 'me', 'edge_m', 'edge_o', 'obs', 'obs_ne'))
        f0 = st['me0']
        g = []
        mev = [e for e in ctx.events if e.kind == 'metric']
        pev = {e.fn: e for e in ctx.events if e.kind == 'prob'}
        # ---- wiring of the metric call (C05)
        g.append(('wiring:one-metric-call', len(mev) == 1))
        D = tm = None
        if len(mev) == 1:
            e = mev[0]
            want = {(True, True): 'distance', (True, False): 'distance_point_to_segment', (False, True): 'distance_point_to_segment',
                    (False, False): 'distance_segment_to_segment'}[(bool(mpt), bool(opt))]
            if e.fn != want:
                # another metric function than the case requires: the wiring clause fails, the rest is stated over its distance
                ok = False
                D = e.result[0] if isinstance(e.result, tuple) else e.result
            elif mpt and opt:
                ok = zand(e.fn == 'distance', eq(e.args, (edge_m.f['p1'], edge_o.f['p1'])))
                D = e.result
            elif mpt and not opt:
                ok = zand(e.fn == 'distance_point_to_segment', eq(e.args, (edge_m.f['p1'], edge_o.f['p1'], edge_o.f['p2'])))
                D = e.result[0]
                ok = zand(ok, eq(edge_o.f['_pi'], e.result[1]), eq(edge_o.f['_ti'], e.result[2]),
                          edge_m.f['_pi'] is None)
            elif not mpt and opt:
                ok = zand(e.fn == 'distance_point_to_segment', eq(e.args, (edge_o.f['p1'], edge_m.f['p1'], edge_m.f['p2'])))
                D, tm = e.result[0], e.result[2]
                if res is not None:
                    ok = zand(ok, eq(edge_m.f['_pi'], e.result[1]), eq(edge_m.f['_ti'], e.result[2]))
            else:
                ok = zand(e.fn == 'distance_segment_to_segment',
                          eq(e.args, (edge_m.f['p1'], edge_m.f['p2'], edge_o.f['p1'], edge_o.f['p2'])))
                D = e.result[0]
                ok = zand(ok, eq(edge_m.f['_pi'], e.result[1]), eq(edge_o.f['_pi'], e.result[2]),
                          eq(edge_m.f['_ti'], e.result[3]), eq(edge_o.f['_ti'], e.result[4]))
            g.append(('wiring:metric-call-and-slots', b2z(ok)))
        # ---- "too close to the end" (node-and-edge mode only)
        too_close = False
        if (not mpt) and opt and tm is not None:
            too_close = z3.And(z3.Not(matcher.f['only_edges']),
                               z3.Or(zabs(tm - 0) <= TOL, zabs(tm - 1) <= TOL))
        S = too_close
        if 'logprob_trans' in pev and 'logprob_obs' in pev and D is not None:
            et, eo = pev['logprob_trans'], pev['logprob_obs']
            lt, lo = et.result[0], eo.result[0]
            g.append(('wiring:trans-call-args', b2z(zand(et.args[0] is me, et.args[1] is edge_m, et.args[2] is edge_o,
                                                         eq(b2z(et.kw['is_prev_ne']), f0['obs_ne'] != 0),
                                                         eq(b2z(et.kw['is_next_ne']), obs_ne != 0)))))
            g.append(('wiring:obs-call-args', b2z(zand(eq(eo.args[0], D), eo.args[1] is me, eo.args[2] is edge_m,
                                                       eo.args[3] is edge_o, eq(b2z(eo.kw['is_ne']), obs_ne != 0)))))
            delta = lt + lo
            new_lp = z3.If(obs_ne == 0, f0['logprob'] + delta,
                           f0['logprobe'] + matcher.f['ne_length_factor_log'] + zmin(f0['logprobne'], delta))
            new_len = z3.If(obs_ne == 0, f0['length'] + 1, f0['length'])
            S = zor(too_close, K.stop_spec(matcher, new_lp / z3.ToReal(new_len), D))
            if res is not None:
                r = res.f
                g += [
                    ('score:emitting', z3.Implies(obs_ne == 0, z3.And(r['logprob'] == f0['logprob'] + lt + lo,
                                                                     r['logprobe'] == r['logprob'], to_z3(r['logprobne']) == 0))),
                    ('score:non-emitting', z3.Implies(obs_ne != 0, z3.And(
                        r['logprobe'] == f0['logprobe'] + matcher.f['ne_length_factor_log'],
                        to_z3(r['logprobne']) == zmin(f0['logprobne'], delta),
                        r['logprob'] == r['logprobe'] + to_z3(r['logprobne'])))),
                    ('score:ema', r['logprobema'] == z3.RealVal('3/10') * delta + z3.RealVal('7/10') * f0['logprobema']),
                    ('score:monotone', r['logprob'] <= f0['logprob']),
                    ('inv:class-invariant', z3.And(r['logprob'] <= 0, r['logprob'] == r['logprobe'] + to_z3(r['logprobne']),
                                                   to_z3(r['logprobne']) <= 0, r['length'] >= 1)),
                    ('fields:length', r['length'] == new_len),
                    ('fields:obs', z3.And(r['obs'] == obs, r['obs_ne'] == obs_ne)),
                    ('fields:delayed', r['delayed'] == f0['delayed']),
                    ('fields:dist_obs', b2z(eq(r['dist_obs'], D))),
                    ('fields:prev-is-exactly-self', b2z(isinstance(r['prev'], SetVal) and len(r['prev'].elems) == 1
                                                        and r['prev'].elems[0] is me)),
                    ('fields:edges-and-matcher', b2z(r['edge_m'] is edge_m and r['edge_o'] is edge_o and r['matcher'] is matcher)),
                    ('fields:dynamic-class', b2z(res.cls == me.cls)),
                    ('stop:flag-is-cutoff-verdict', b2z(r['stop']) == b2z(S)),
                    ('cutoff:nonstopped-within-cutoffs', z3.Implies(z3.Not(b2z(r['stop'])), z3.And(
                        b2z(True if isinstance(matcher.f['max_dist'], float) else D <= matcher.f['max_dist']),
                        b2z(True if isinstance(matcher.f['min_logprob_norm'], float)
                            else r['logprob'] >= matcher.f['min_logprob_norm'] * z3.ToReal(r['length']))))),
                ]
                if family == 'distance':
                    g.append(('fields:props', b2z(zand(eq(r['d_o'], et.result[1]['d_o']), eq(r['d_s'], et.result[1]['d_s']),
                                                       eq(r['lpt'], lt), eq(r['lpe'], lo)))))
        # ---- None iff cut off and not debugging (C19); self is never modified (frame)
        if res is None:
            g.append(('debug:none-only-when-cut-off-and-not-debug', z3.And(b2z(S), z3.Not(it_debug(ctx)))))
        else:
            g.append(('debug:object-unless-cut-off-without-debug', z3.Or(z3.Not(b2z(S)), it_debug(ctx))))
        g.append(('frame:self-unchanged', b2z(zand(*[eq(me.f[k], f0[k]) if not isinstance(f0[k], (Obj, SetVal)) else me.f[k] is f0[k]
                                                     for k in f0]))))
        return g
    models = dict(K.base_models())
    models.update(K.abstract_prob_models('distance' if family == 'distance' else 'base'))
    rep = verify_function(prog, fv, setup, goals, models=models, name=f"BaseMatching.next[{scen}]")
    return fv, rep


def it_debug(ctx):
    return z3.Bool('debug')


# =============================================================================================== BaseMatching.first
def vc_first(prog, family='base', max_dist_inf=False, min_lp_inf=False, mpt=False):
    fv = prog.func(K.BASE, 'BaseMatching.first')
    mcls = 'DistanceMatcher' if family == 'distance' else 'BaseMatcher'
    ecls = 'DistanceMatching' if family == 'distance' else 'BaseMatching'
    scen = f"{family},{'node' if mpt else 'edge'},{'maxd=inf' if max_dist_inf else 'maxd'},{'minlp=-inf' if min_lp_inf else 'minlp'}"
    st = {}

    def setup(ctx, it):
        matcher = K.mk_matcher(mcls, max_dist_inf, min_lp_inf)
        edge_m, edge_o = K.mk_segment('m', mpt, with_proj=True), K.mk_segment('o', True)
        lp_init, dist = R('lp_init'), R('dist_obs')
        ctx.assume(*K.matcher_requires(matcher))
        ctx.assume(lp_init <= 0, dist >= 0)
        st.update(matcher=matcher, edge_m=edge_m, edge_o=edge_o, lp_init=lp_init, dist=dist)
        return [ClassVal(ecls), lp_init, edge_m, edge_o, matcher, dist], {}

    def goals(ctx, res):
        matcher, edge_m, edge_o, lp_init, dist = (st[k] for k in ('matcher', 'edge_m', 'edge_o', 'lp_init', 'dist'))
        pev = {e.fn: e for e in ctx.events if e.kind == 'prob'}
        g = [('wiring:no-transition-term', b2z('logprob_trans' not in pev and 'logprob_obs' in pev))]
        if 'logprob_obs' not in pev:
            return g
        eo = pev['logprob_obs']
        lo = eo.result[0]
        g.append(('wiring:obs-call-args', b2z(zand(eq(eo.args[0], dist), eo.args[1] is None, eo.args[2] is edge_m,
                                                   eo.args[3] is edge_o, eo.kw['is_ne'] is False))))
        S = K.stop_spec(matcher, lp_init + lo, dist)
        if res is None:
            g.append(('debug:none-only-when-cut-off-and-not-debug', z3.And(b2z(S), z3.Not(z3.Bool('debug')))))
            return g
        r = res.f
        g += [
            ('debug:object-unless-cut-off-without-debug', z3.Or(z3.Not(b2z(S)), z3.Bool('debug'))),
            ('score:start', z3.And(r['logprob'] == lp_init + lo, r['logprobe'] == r['logprob'], to_z3(r['logprobne']) == 0,
                                   r['logprobema'] == r['logprob'])),
            ('inv:class-invariant', z3.And(r['logprob'] <= 0, to_z3(r['length']) == 1, to_z3(r['obs']) == 0, to_z3(r['obs_ne']) == 0,
                                           to_z3(r['delayed']) == 0)),
            ('fields:no-predecessor', b2z(isinstance(r['prev'], SetVal) and len(r['prev'].elems) == 0)),
            ('fields:dist_obs', b2z(eq(r['dist_obs'], dist))),
            ('fields:edges-and-matcher', b2z(r['edge_m'] is edge_m and r['edge_o'] is edge_o and r['matcher'] is matcher)),
            ('fields:dynamic-class', b2z(res.cls == ecls)),
            ('stop:flag-is-cutoff-verdict', b2z(r['stop']) == b2z(S)),
            ('cutoff:nonstopped-within-cutoffs', z3.Implies(z3.Not(b2z(r['stop'])), z3.And(
                b2z(True if isinstance(matcher.f['max_dist'], float) else dist <= matcher.f['max_dist']),
                b2z(True if isinstance(matcher.f['min_logprob_norm'], float) else r['logprob'] >= matcher.f['min_logprob_norm'])))),
        ]
        if family == 'distance':
            g.append(('fields:props', b2z(eq(r['lpe'], lo))))
        return g
    models = dict(K.base_models())
    models.update(K.abstract_prob_models('distance' if family == 'distance' else 'base'))
    rep = verify_function(prog, fv, setup, goals, models=models, name=f"BaseMatching.first[{scen}]")
    return fv, rep


# =============================================================================================== do_stop
def vc_do_stop(prog, max_dist_inf=False, min_lp_inf=False):
    fv = prog.func(K.BASE, 'BaseMatcher.do_stop')
    st = {}

    def setup(ctx, it):
        m = K.mk_matcher('BaseMatcher', max_dist_inf, min_lp_inf)
        st['m'] = m
        return [m, R('lpn'), R('dist'), R('lt'), R('lo')], {}

    def goals(ctx, res):
        return [('stop:exact', b2z(res) == b2z(K.stop_spec(st['m'], R('lpn'), R('dist'))))]
    rep = verify_function(prog, fv, setup, goals, models=K.base_models(),
                          name=f"BaseMatcher.do_stop[{'maxd=inf' if max_dist_inf else 'maxd'},{'minlp=-inf' if min_lp_inf else 'minlp'}]")
    return fv, rep


# =============================================================================================== update / _update_inner
def class_slots(prog, cname):
    """__slots__ of the class and its bases, read from the class bodies in the working tree."""
    import ast
    out = []
    for c in reversed(prog.mro(cname)):
        node, _ = prog.classes[c]
        for n in node.body:
            if isinstance(n, ast.Assign) and any(isinstance(t, ast.Name) and t.id == '__slots__' for t in n.targets):
                out += [e.value for e in n.value.elts]
    return out


def vc_update(prog, ecls='BaseMatching'):
    """K-update: keep-the-better with stop flags; slot-complete replacement (C01, C02, C09, C19)."""
    fv = prog.func(K.BASE, 'BaseMatching.update')
    slots = class_slots(prog, ecls)
    st = {}

    def mk(nm, matcher):
        pred = K.mk_matching(nm + '_pred', matcher, ecls, stop=False)
        m = K.mk_matching(nm, matcher, ecls, edge_m=K.mk_segment(nm + '_em', False, True), edge_o=K.mk_segment(nm + '_eo', True),
                          prev=[pred])
        return m

    def setup(ctx, it):
        matcher = K.mk_matcher('DistanceMatcher' if ecls == 'DistanceMatching' else 'BaseMatcher')
        a, b = mk('cur', matcher), mk('new', matcher)
        ctx.assume(a.f['length'] == b.f['length'])          # callers only update equal keys / equal chain lengths (C09)
        st.update(a=a, b=b, a0=dict(a.f), b0=dict(b.f), a_prev0=list(a.f['prev'].elems), a_po0=list(a.f['prev_other'].elems))
        return [a, b], {}

    def same(x, y):
        if isinstance(x, (Obj, SetVal)) or isinstance(y, (Obj, SetVal)) or x is None or y is None:
            return x is y
        return eq(x, y)

    def goals(ctx, res):
        a, b, a0, b0 = st['a'], st['b'], st['a0'], st['b0']
        better = z3.Or(z3.And(a0['stop'], z3.Not(b0['stop'])),
                       z3.And(a0['stop'] == b0['stop'], a0['logprob'] < b0['logprob']))
        g = [('update:returns-replaced', b2z(res) == better)]
        took_new = isinstance(res, bool) and res or (z3.is_expr(res) and z3.is_true(z3.simplify(res)))
        for s in slots:
            if s in ('matcher', 'prev_other'):
                continue
            if s not in a.f:
                g.append((f'update:slot-complete[{s}]', z3.BoolVal(False)))
                continue
            # the entry afterwards equals the winner in every slot
            if took_new:
                g.append((f'update:slot-complete[{s}]', b2z(same(a.f[s], b0[s]))))
            else:
                g.append((f'update:loser-leaves-entry-unchanged[{s}]', b2z(same(a.f[s], a0[s]))))
        po = a.f['prev_other']
        g.append(('update:prev_other-only-grows', b2z(isinstance(po, SetVal) and all(any(x is y for y in po.elems) for x in st['a_po0']))))
        g.append(('frame:candidate-unchanged', b2z(zand(*[same(b.f[k], b0[k]) for k in b0]))))
        g.append(('inv:never-lowers-live-score', z3.Implies(z3.And(z3.Not(a0['stop']), z3.Not(b0['stop'])),
                                                            a.f['logprob'] >= a0['logprob'])))
        g.append(('debug:stopped-candidate-never-replaces-live-entry',
                  z3.Implies(z3.And(z3.Not(a0['stop']), b0['stop']), z3.And(b2z(res) == False, a.f['logprob'] == a0['logprob'],
                                                                            b2z(a.f['stop']) == False))))
        g.append(('debug:live-candidate-replaces-stopped-entry',
                  z3.Implies(z3.And(a0['stop'], z3.Not(b0['stop'])), b2z(res) == True)))
        return g
    rep = verify_function(prog, fv, setup, goals, models=K.base_models(), name=f"BaseMatching.update[{ecls}]")
    return fv, rep


# =============================================================================================== LatticeColumn.upsert
def vc_upsert(prog, ecls='BaseMatching', n_layers=1, obs_ne=0):
    """K-upsert for a column with `n_layers` existing layers and a candidate of non-emitting depth `obs_ne`
    (shape split: n_layers, obs_ne in {0,1,2}; layer CONTENTS are arbitrary symbolic maps)."""
    fv = prog.func(K.BASE, 'LatticeColumn.upsert')
    st = {}

    def setup(ctx, it):
        matcher = K.mk_matcher('DistanceMatcher' if ecls == 'DistanceMatching' else 'BaseMatcher')
        pred = K.mk_matching('cand_pred', matcher, ecls, stop=False)
        cand = K.mk_matching('cand', matcher, ecls, edge_m=K.mk_segment('cand_em', False, True),
                             edge_o=K.mk_segment('cand_eo', True), prev=[pred])
        cand.f['obs_ne'] = obs_ne

        def val_factory(it_, key):
            # an arbitrary existing entry filed under this key (C09: key == entry.key; same chain length)
            old = K.mk_matching('old', matcher, ecls, edge_m=K.mk_segment('old_em', False, True),
                                edge_o=K.mk_segment('old_eo', True), prev=[K.mk_matching('old_pred', matcher, ecls, stop=False)])
            old.f['obs_ne'] = obs_ne
            it_.ctx.assume(old.f['edge_m'].f['l1'] == cand.f['edge_m'].f['l1'], old.f['edge_m'].f['l2'] == cand.f['edge_m'].f['l2'],
                           old.f['obs'] == cand.f['obs'], old.f['length'] == cand.f['length'])
            st['old'] = old
            st['old0'] = dict(old.f)
            return old
        layers = [SymDict(f"layer{k}", val_factory) for k in range(n_layers)]
        col = Obj('LatticeColumn', obs_idx=I('col_idx'), o=list(layers))
        st.update(col=col, cand=cand, layers=layers, cand0=dict(cand.f), old=None)
        return [col, cand], {}

    def goals(ctx, res):
        col, cand, layers = st['col'], st['cand'], st['layers']
        o = col.f['o']
        g = [('upsert:layer-count', b2z(len(o) == max(n_layers, obs_ne + 1))),
             ('upsert:existing-layers-kept', b2z(all(o[k] is layers[k] for k in range(n_layers)))),
             ('upsert:new-layers-empty', b2z(all(isinstance(o[k], dict) and (len(o[k]) == 0 or k == obs_ne)
                                                 for k in range(n_layers, len(o)))))]
        # frame: no layer other than obs_ne is written
        g.append(('upsert:frame-other-layers', b2z(all(len(layers[k].writes) == 0 for k in range(n_layers) if k != obs_ne))))
        key = (cand.f['edge_m'].f['l1'], cand.f['edge_m'].f['l2'], cand.f['obs'], obs_ne)
        tgt = o[obs_ne] if obs_ne < len(o) else None
        if st['old'] is not None:
            # key was present: the stored object stays, content = better(old, candidate) (K-update), nothing re-filed
            old, old0, c0 = st['old'], st['old0'], st['cand0']
            better = z3.Or(z3.And(old0['stop'], z3.Not(c0['stop'])), z3.And(old0['stop'] == c0['stop'], old0['logprob'] < c0['logprob']))
            g.append(('upsert:present-returns-stored-entry', b2z(res is old)))
            # the stored object stays filed under its key: the only layer writes allowed are a re-filing of that same
            # object under the same key (ordering of a former debug placeholder), never another object or key
            wr = tgt.writes if isinstance(tgt, SymDict) else None
            g.append(('upsert:present-entry-stays-filed-under-its-key', b2z(wr is not None and all(
                (v is old or v is __import__('pyvc.interp', fromlist=['DELETED']).DELETED) and eq(k_, key) is not False for k_, v in wr)
                and (not wr or wr[-1][1] is old))))
            g.append(('upsert:present-refiling-only-for-a-stopped-entry-that-became-live',
                      z3.Implies(b2z(bool(wr)), z3.And(old0['stop'], z3.Not(b2z(old.f['stop']))))))
            # C19: a stopped entry exists only under debug; once a live candidate takes it over it must sit where a newly
            # inserted entry would sit (the iteration order of the layer decides between exactly equal alternatives)
            DEL = __import__('pyvc.interp', fromlist=['DELETED']).DELETED
            refiled = bool(wr) and len(wr) >= 2 and wr[-2][1] is DEL and wr[-1][1] is old
            g.append(('debug:placeholder-turned-live-is-ordered-like-a-new-entry',
                      z3.Implies(z3.And(old0['stop'], z3.Not(b2z(old.f['stop']))), b2z(refiled))))
            g.append(('upsert:present-keeps-better-score', old.f['logprob'] == z3.If(better, c0['logprob'], old0['logprob'])))
            g.append(('upsert:present-keeps-better-predecessor', b2z(len(old.f['prev'].elems) == 1) if isinstance(old.f['prev'], SetVal) else z3.BoolVal(False)))
        else:
            writes = tgt.writes if isinstance(tgt, SymDict) else list(tgt.items()) if isinstance(tgt, dict) else []
            g.append(('upsert:absent-filed-once-under-its-key', b2z(len(writes) == 1 and writes[0][1] is cand) if len(writes) == 1 else z3.BoolVal(False)))
            if len(writes) == 1:
                g.append(('upsert:absent-key-is-candidate-key', b2z(eq(writes[0][0], key))))
            g.append(('upsert:absent-returns-candidate', b2z(res is cand)))
        g.append(('frame:candidate-unchanged', b2z(zand(*[(cand.f[k] is st['cand0'][k]) if isinstance(st['cand0'][k], (Obj, SetVal)) or st['cand0'][k] is None
                                                         else eq(cand.f[k], st['cand0'][k]) for k in st['cand0']]))))
        return g
    rep = verify_function(prog, fv, setup, goals, models=K.base_models(), name=f"LatticeColumn.upsert[{ecls},layers={n_layers},obs_ne={obs_ne}]")
    return fv, rep


# =============================================================================================== K-obs / K-trans
def vc_obs_distance(prog):
    fv = prog.func(K.DIST, 'DistanceMatcher.logprob_obs')
    st = {}

    def setup(ctx, it):
        m = K.mk_matcher('DistanceMatcher')
        ctx.assume(*K.matcher_requires(m))
        st['m'] = m
        ctx.assume(R('d') >= 0)
        return [m, R('d')], {'is_ne': B('is_ne')}

    def goals(ctx, res):
        m = st['m']
        val, props = res
        sig = z3.If(B('is_ne'), m.f['sigma_ne'], m.f['sigma'])
        return [('obs:formula', to_z3(val) * sig == -(R('d') * R('d'))),
                ('obs:noise-selection', z3.Or(z3.And(B('is_ne'), to_z3(val) * m.f['sigma_ne'] == -(R('d') * R('d'))),
                                              z3.And(z3.Not(B('is_ne')), to_z3(val) * m.f['sigma'] == -(R('d') * R('d'))))),
                ('obs:proper-probability', to_z3(val) <= 0),
                ('obs:props', b2z(isinstance(props, dict) and set(props) == {'lpe'} and eq(props.get('lpe'), val)))]
    rep = verify_function(prog, fv, setup, goals, models=K.base_models(), name="DistanceMatcher.logprob_obs")
    return fv, rep


def vc_obs_simple(prog):
    fv = prog.func(K.SIMPLE, 'SimpleMatcher.logprob_obs')
    st = {}

    def m_logpdf(it, o, x):
        # scipy closed form (assumed): halfnorm(scale=s).logpdf(x) = log(sqrt(2/pi)/s) - x^2 / (2 s^2); the constant is the
        # negative of the matcher's normaliser (log identity for the constructor constants, assumed)
        s = o.f['scale']
        q = it.ctx.fresh('sq')
        it.ctx.assume(q * (2 * s * s) == to_z3(x) * to_z3(x))
        return o.f['logc'] - q

    def setup(ctx, it):
        m = K.mk_matcher('SimpleMatcher')
        for k, li in (('obs_noise_dist', 'obs_noise_logint'), ('obs_noise_dist_ne', 'obs_noise_logint_ne')):
            m.f[k].f['logc'] = -m.f[li]
            ctx.assume(m.f[k].f['scale'] > 0)
        st['m'] = m
        ctx.assume(R('d') >= 0)
        return [m, R('d'), None, None, None], {'is_ne': B('is_ne')}

    def goals(ctx, res):
        m = st['m']
        val, props = res
        s = z3.If(B('is_ne'), m.f['obs_noise_dist_ne'].f['scale'], m.f['obs_noise_dist'].f['scale'])
        return [('obs:formula', to_z3(val) * (2 * s * s) == -(R('d') * R('d'))),
                ('obs:proper-probability', to_z3(val) <= 0),
                ('obs:props', b2z(isinstance(props, dict) and len(props) == 0))]
    models = dict(K.base_models())
    models[('meth', 'HalfNorm', 'logpdf')] = Model('halfnorm.logpdf', m_logpdf)
    rep = verify_function(prog, fv, setup, goals, models=models, name="SimpleMatcher.logprob_obs")
    return fv, rep


def _mk_trans_world(family, opt):
    mcls = 'DistanceMatcher' if family == 'distance' else 'SimpleMatcher'
    ecls = 'DistanceMatching' if family == 'distance' else 'BaseMatching'
    matcher = K.mk_matcher(mcls)
    pp = K.mk_matching('pp', matcher, ecls, edge_m=K.mk_segment('ppm', False, True), edge_o=K.mk_segment('ppo', True), stop=False)
    prev = K.mk_matching('prev', matcher, ecls, edge_m=K.mk_segment('pm', False, True), edge_o=K.mk_segment('po', True), prev=[pp], stop=False)
    edge_m = K.mk_segment('m', False, True)
    edge_o = K.mk_segment('o', opt, True)
    return matcher, pp, prev, edge_m, edge_o


def vc_trans_distance(prog, opt=True, has_pp=True):
    """K-trans-distance against the documented formula (C02); non-positivity (C17); first-order when avoid_goingback is
    off (C01/C06): nothing of prev.prev is read."""
    fv = prog.func(K.DIST, 'DistanceMatcher.logprob_trans')
    st = {}

    def setup(ctx, it):
        matcher, pp, prev, edge_m, edge_o = _mk_trans_world('distance', opt)
        if not has_pp:
            prev.f['prev'] = SetVal([])
        ctx.assume(*K.matcher_requires(matcher))
        ctx.assume(prev.f['d_o'] >= 0, prev.f['d_s'] >= 0)
        st.update(matcher=matcher, pp=pp, prev=prev, edge_m=edge_m, edge_o=edge_o)
        return [matcher, prev, edge_m, edge_o], {'is_prev_ne': B('is_prev_ne'), 'is_next_ne': B('is_next_ne')}

    def goals(ctx, res):
        matcher, pp, prev, em, eo = (st[k] for k in ('matcher', 'pp', 'prev', 'edge_m', 'edge_o'))
        lp, props = res
        lp = to_z3(lp)
        pm = prev.f['edge_m']
        ev = [e for e in ctx.events if e.kind == 'metric']
        g = []
        same_edge = z3.Or(z3.And(pm.f['l1'] == em.f['l1'], pm.f['l2'] == em.f['l2']),
                          z3.And(pm.f['l1'] == em.f['l2'], pm.f['l2'] == em.f['l1']))
        connected = pm.f['l2'] == em.f['l1']
        opi_prev = prev.f['edge_o'].f['p1']
        opi = eo.f['p1'] if opt else eo.f['_pi']
        g.append(('trans:only-distance-calls', b2z(all(e.fn == 'distance' for e in ev) and len(ev) in (2, 3))))
        if not (all(e.fn == 'distance' for e in ev) and len(ev) in (2, 3)):
            return g
        g.append(('trans:obs-distance-args', b2z(eq(ev[0].args, (opi_prev, opi)))))
        if len(ev) == 2:
            g.append(('trans:direct-state-distance-when-same-or-unconnected', z3.And(z3.Or(same_edge, z3.Not(connected)),
                                                                                    b2z(eq(ev[1].args, (pm.f['_pi'], em.f['_pi']))))))
            dx = ev[1].result
        else:
            g.append(('trans:through-shared-node-when-connected', z3.And(z3.Not(same_edge), connected,
                                                                        b2z(eq(ev[1].args, (pm.f['_pi'], pm.f['p2']))),
                                                                        b2z(eq(ev[2].args, (pm.f['p2'], em.f['_pi']))))))
            dx = ev[1].result + ev[2].result
        dz = ev[0].result
        ne = B('is_next_ne')
        dz_t = z3.If(ne, dz + prev.f['d_o'], dz)
        dx_t = z3.If(ne, dx + prev.f['d_s'], dx)
        beta = z3.If(z3.Or(B('is_prev_ne'), ne), matcher.f['beta_ne'], matcher.f['beta'])
        ag = matcher.f['avoid_goingback']
        same_state = z3.And(pm.f['l1'] == em.f['l1'], pm.f['l2'] == em.f['l2'])
        reverse = z3.And(pm.f['l1'] == em.f['l2'], pm.f['l2'] == em.f['l1'])
        back_to = z3.And(em.f['l1'] == pp.f['edge_m'].f['l1'], em.f['l2'] == pp.f['edge_m'].f['l2']) if has_pp else z3.BoolVal(False)
        pen = z3.If(same_state, z3.If(z3.And(ag, em.f['_ti'] < pm.f['_ti']), matcher.f['gobackonedge_factor_log'], 0),
                    z3.If(reverse, z3.If(ag, matcher.f['gobackonedge_factor_log'], 0),
                          z3.If(z3.Not(connected), matcher.f['notconnectededges_factor_log'],
                                z3.If(z3.And(ag, back_to), matcher.f['gobacktoedge_factor_log'], 0))))
        diff = dz_t - dx_t
        g += [('trans:formula', (lp - pen) * beta == -(diff * diff)),
              ('trans:proper-probability', lp <= 0),
              ('trans:props', b2z(isinstance(props, dict) and set(props) == {'d_o', 'd_s', 'lpt'}) if not isinstance(props, dict) or set(props) != {'d_o', 'd_s', 'lpt'}
               else z3.And(to_z3(props['d_o']) == dz_t, to_z3(props['d_s']) == dx_t, to_z3(props['lpt']) == lp))]
        return g
    rep = verify_function(prog, fv, setup, goals, models=K.base_models(),
                          name=f"DistanceMatcher.logprob_trans[{'obs' if opt else 'obsseg'},{'pp' if has_pp else 'no-pp'}]")
    return fv, rep


def vc_trans_simple(prog, mpt=False, has_pp=True):
    fv = prog.func(K.SIMPLE, 'SimpleMatcher.logprob_trans')
    st = {}

    def setup(ctx, it):
        matcher, pp, prev, edge_m, edge_o = _mk_trans_world('simple', True)
        if mpt:
            edge_m = K.mk_segment('m', True)
            prev.f['edge_m'] = K.mk_segment('pm', True)
            pp.f['edge_m'] = K.mk_segment('ppm', True)
        if not has_pp:
            prev.f['prev'] = SetVal([])
        ctx.assume(*K.matcher_requires(matcher))
        st.update(matcher=matcher, pp=pp, prev=prev, edge_m=edge_m, edge_o=edge_o)
        return [matcher, prev, edge_m, edge_o], {'is_prev_ne': B('is_prev_ne'), 'is_next_ne': B('is_next_ne')}

    def goals(ctx, res):
        matcher, pp, prev, em = (st[k] for k in ('matcher', 'pp', 'prev', 'edge_m'))
        lp, props = res
        lp = to_z3(lp)
        pm = prev.f['edge_m']
        ag = matcher.f['avoid_goingback']
        if mpt:
            same_state = pm.f['l1'] == em.f['l1']
            back_to = (em.f['l1'] == pp.f['edge_m'].f['l1']) if has_pp else z3.BoolVal(False)
            tiback = z3.BoolVal(False)      # nodes: ti is 0 on both sides
        else:
            same_state = z3.And(pm.f['l1'] == em.f['l1'], pm.f['l2'] == em.f['l2'])
            back_to = z3.And(em.f['l1'] == pp.f['edge_m'].f['l1'], em.f['l2'] == pp.f['edge_m'].f['l2']) if has_pp else z3.BoolVal(False)
            tiback = em.f['_ti'] < pm.f['_ti']
        spec = z3.If(same_state, z3.If(z3.And(ag, tiback), matcher.f['gobackonedge_factor_log'], 0),
                     matcher.f['transition_factor'] + z3.If(z3.And(ag, back_to), matcher.f['gobacktoedge_factor_log'], 0))
        return [('trans:formula', lp == spec), ('trans:proper-probability', lp <= 0),
                ('trans:no-geometry', b2z(not any(e.kind == 'metric' for e in ctx.events))),
                ('trans:props', b2z(isinstance(props, dict) and len(props) == 0))]
    rep = verify_function(prog, fv, setup, goals, models=K.base_models(),
                          name=f"SimpleMatcher.logprob_trans[{'node' if mpt else 'edge'},{'pp' if has_pp else 'no-pp'}]")
    return fv, rep


# =============================================================================================== LatticeColumn.set_delayed
def vc_set_delayed(prog, ecls='BaseMatching'):
    """Re-activation of a column (C08): for a column with ANY number of layers of ANY size (foreach rule, nested), every
    entry's round is set to the given one, whatever it was, and nothing else of an entry is written."""
    fv = prog.func(K.BASE, 'LatticeColumn.set_delayed')
    st = {}

    def setup(ctx, it):
        st.clear()
        matcher = K.mk_matcher('BaseMatcher')

        def entry(it_):
            m = K.mk_matching(f"e{len(st.setdefault('entries', []))}", matcher, ecls, edge_m=K.mk_segment('e_em', False, True),
                              edge_o=K.mk_segment('e_eo', True))
            m.f['delayed'] = it_.ctx.fresh('e_delayed', 'I')          # arbitrary round, also one far in the past or future
            st['entries'].append((m, dict(m.f)))
            return m, []

        def layer(it_):
            lay = Obj('Layer', entries=SymColl('layer.values', entry))
            return lay, []
        col = Obj('LatticeColumn', obs_idx=I('col_idx'), o=SymColl('layers', layer))
        st['d'] = I('new_round')
        return [col, st['d']], {}
    models = dict(K.base_models())
    models[('meth', 'Layer', 'values')] = Model('dict.values', lambda it, lay: lay.f['entries'])

    def end_goals(ctx, why):
        g = []
        inner = [e for e in ctx.events if e.kind == 'iter-begin' and len(e.loops) == 2]
        if not inner:
            return g
        m = inner[-1].elem
        m0 = [b for a, b in st.get('entries', []) if a is m]
        if not m0:
            return [('reactivate:entry-is-an-entry-of-the-column', z3.BoolVal(False))]
        g.append(('reactivate:every-entry-gets-the-given-round', m.f['delayed'] == st['d']))
        g.append(('reactivate:nothing-else-of-the-entry-changes', b2z(zand(*[
            (m.f[k] is m0[0][k]) if isinstance(m0[0][k], (Obj, SetVal)) or m0[0][k] is None else eq(m.f[k], m0[0][k])
            for k in m0[0] if k != 'delayed']))))
        return g

    def goals(ctx, res):
        return [('reactivate:returns-nothing', b2z(res is None))]
    rep = verify_function(prog, fv, setup, goals, models=models, end_goals=end_goals, name=f"LatticeColumn.set_delayed[{ecls}]")
    return fv, rep
