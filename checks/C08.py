"""C08 - see DESIGN.md section 5/C08.  Deductive clause groups (pyvc) + bounded suite (rtc)."""
from checks import mcheck
from contracts import lattice_vc as V
from rtc import suites

RULE = 'cases are a deterministic function of VERIF_SEED and the case number: small planar maps (2-5 nodes on the half-integer grid {0..4}^2; chain, one-way chain, cycle, star, grid, line, random edge sets, one-way feeders merging into one node; duplicated node locations and self-listed neighbours included; string, 1-based and 0-based integer labels), per suite also: a one-way block driven around more than once, feeders plus a linked parallel road, 3x3 / 4x4 street grids with sparse traces (non-emitting chains of depth >= 2); traces of 1-5 observations on the quarter grid (walks along the map with noise, on-road, sparse, outliers, repeats, random); one case in five first matches ANOTHER trace on the same matcher object; one trace in five carries time stamps as a third component (x, y, t); configurations over both matcher families, edge-only / node-and-edge states, noise in {0.09,.5,.55,1,2}, max_dist, max_dist_init, min_prob_norm, non-emitting on/off, width in {None,1,2,3}, avoid_goingback; histories of match / extend / widen (/ continue_with_distance where the suite says so)'

SPEC = {
    'level': 'other',
    'explanation': 'Bounded: split-anywhere vs one-shot on the universe. Deductive support: set_delayed / delayed bookkeeping clauses shared with C07/C09.',
    'assumptions': ['the equality is relational over two whole runs: bounded only'],
    'deductive': [
        ('K-next(delayed inherited)', 'next', '^fields:delayed'),
        ("_create_start_nodes(an expansion round creates nothing and keeps the lattice)", 'start_nodes', r'^start:expansion'),
        ("match(extension: prefix test, re-activation of the last old column, missing columns created, every observation re-visited, trace replaced, round counter incremented once)", 'match', r'^(extend:|expand:|init:|loop:(runs-over|new-column|no-pruning)|BaseMatcher.match::loop)'),
        ("LatticeColumn.set_delayed(re-activation gives EVERY entry of the column the new round, whatever its old one: nested foreach)", 'set_delayed', '^reactivate:'),
        ("an extension round is a round like any other: the layers of the non-emitting search and the next column are pruned with the CURRENT round number (the second and later extensions have round numbers above 1)", 'ne_levels', r'^levels:(this-layer|next-column)'),
        ("match(with a width the new column is re-pruned with the current round number at the end of every step)", 'match', r'^loop:(new-column|no-pruning)'),
        ("_match_states(expanded = live entries due in this round)", 'match_states', r'^select:')],
    'bounded': [
        ('incremental-vs-one-shot', suites.case_C08, 1500, 200000, RULE + '; ' + 'non-trivial = first cut inside the matched prefix; 1-2 cuts', '')],
}


def run(tier, seed, only=None):
    return mcheck.run_property('C08', tier, seed, only, SPEC)


def replay(path):
    return mcheck.replay_generic('C08', path, {s[0]: s[1] for s in SPEC['bounded']})
