"""C06 - see DESIGN.md section 5/C06.  Deductive clause groups (pyvc) + bounded suite (rtc)."""
from checks import mcheck
from contracts import lattice_vc as V
from rtc import suites

RULE = 'cases are a deterministic function of VERIF_SEED and the case number: small planar maps (2-5 nodes on the half-integer grid {0..4}^2; chain, one-way chain, cycle, star, grid, line, random edge sets, one-way feeders merging into one node; duplicated node locations and self-listed neighbours included; string, 1-based and 0-based integer labels), per suite also: a one-way block driven around more than once, feeders plus a linked parallel road, 3x3 / 4x4 street grids with sparse traces (non-emitting chains of depth >= 2); traces of 1-5 observations on the quarter grid (walks along the map with noise, on-road, sparse, outliers, repeats, random); one case in five first matches ANOTHER trace on the same matcher object; one trace in five carries time stamps as a third component (x, y, t); configurations over both matcher families, edge-only / node-and-edge states, noise in {0.09,.5,.55,1,2}, max_dist, max_dist_init, min_prob_norm, non-emitting on/off, width in {None,1,2,3}, avoid_goingback; histories of match / extend / widen (/ continue_with_distance where the suite says so)'

SPEC = {
    'level': 'other',
    'explanation': "Deductive: the score of a non-emitting step never exceeds its predecessor's (monotone), upsert keeps the better of stored entry and candidate. Bounded: non-emitting states off vs on, same everything else (first-order models, no pruning).",
    'assumptions': ['dominance induction (composition) is manual'],
    'deductive': [
        ('K-next(monotone score; a candidate inherits the round of its predecessor, so what is derived from a non-emitting state is expanded in the same round; the cut-off verdict is a function of the normalised score and the distance only - nothing path dependent that the keep-the-better merge could lose)', 'next', '^(score:(monotone|non-emitting)|fields:delayed|stop:|cutoff:)'),
        ('K-upsert(keeps the better)', 'upsert', '^upsert:present'),
        ("_match_non_emitting_states_end(next column written only through keep-the-better upsert; worse candidates dropped)", 'ne_end', r'^ne-end:'),
        ("match(per observation: emitting expansion first and unconditional, non-emitting search after it iff enabled)", 'match', r'^loop:(emitting-expansion|non-emitting-search)'),
        ("_match_non_emitting_states(per level: one more non-emitting step, then every live entry of the level is linked to the next observation)", 'ne_levels', r'^levels:(steps|every-live|inner-step)'),
        ("BaseMatcher.__init__(cut-offs and noise do not depend on the non_emitting_states switch or any other switch)", 'matcher_init', r'^init:'),
        ("_match_states(the emitting expansion of an entry does not depend on how the entry was reached: stay + one call per neighbour the map offers)", 'match_states', r'^cover:'),
        ("logprob_trans of both families is the documented formula (first-order without avoid_goingback: how an entry was reached - through non-emitting states or not - cannot change the score of its continuation)", 'trans', r'^trans:formula')],
    'bounded': [
        ('ne-on-vs-off', suites.case_C06, 1500, 200000, RULE + '; ' + 'non-trivial = the run with non-emitting states uses one on its best path or the matched indices differ', '')],
}


def run(tier, seed, only=None):
    return mcheck.run_property('C06', tier, seed, only, SPEC)


def replay(path):
    return mcheck.replay_generic('C06', path, {s[0]: s[1] for s in SPEC['bounded']})
