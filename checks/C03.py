"""C03 - see DESIGN.md section 5/C03.  Deductive clause groups (pyvc) + bounded suite (rtc)."""
from checks import mcheck
from contracts import lattice_vc as V
from rtc import suites

RULE = 'cases are a deterministic function of VERIF_SEED and the case number: small planar maps (2-5 nodes on the half-integer grid {0..4}^2; chain, one-way chain, cycle, star, grid, line, random edge sets, one-way feeders merging into one node; duplicated node locations and self-listed neighbours included; string, 1-based and 0-based integer labels), per suite also: a one-way block driven around more than once, feeders plus a linked parallel road, 3x3 / 4x4 street grids with sparse traces (non-emitting chains of depth >= 2); traces of 1-5 observations on the quarter grid (walks along the map with noise, on-road, sparse, outliers, repeats, random); one case in five first matches ANOTHER trace on the same matcher object; one trace in five carries time stamps as a third component (x, y, t); configurations over both matcher families, edge-only / node-and-edge states, noise in {0.09,.5,.55,1,2}, max_dist, max_dist_init, min_prob_norm, non-emitting on/off, width in {None,1,2,3}, avoid_goingback; histories of match / extend / widen (/ continue_with_distance where the suite says so)'

SPEC = {
    'level': 'other',
    'explanation': 'Deductive: next/first file the observation index and non-emitting depth they are given, length counts emitting states. Bounded: structural postcondition of match() (observations in order from 0, one emitting state per matched observation, non-emitting depths 1,2,.. after it, returned list = path states / collapsed, index truthful, empty result iff no admissible first candidate).',
    'assumptions': ["reading of 'only non-emitting states in between': a run of non-emitting states after the last emitting state (between the last matched observation and the next, unmatched one) is allowed; the code documents that it prefers the longer path there"],
    'deductive': [
        ('K-next(fields obs/obs_ne/length)', 'next', '^fields:(obs|length)'),
        ('K-first(start fields)', 'first', '^inv:'),
        ("non-emitting layers(calls are non-emitting for this observation with the observation segment; emitting for the next)", 'ne_inner', r'^ne-inner:(one-non|layer)'),
        ("non-emitting chains link to the NEXT observation with an emitting call", 'ne_end', r'^ne-end:one-emitting'),
        ("_build_node_path(final entry taken from lattice[start_idx], deepest live layer preferred as documented)", 'final_choice', r'choose:'),
        ("match(index bookkeeping: early stop detected exactly when the previous column has no live emitting entry, ([],0) only without an admissible first candidate, index = start of the backtracking, complete match reports len-1)", 'match', r'^(result:|loop:(early-stop|continues|runs-over|nothing))'),
        ("_build_node_path(returned sequence = state keys of the back-tracked entries in order; unique removes exactly the immediate repetitions: loop invariant)", 'path_tail', r'(^tail:|^unique:|::inv-(init|preserved)::)'),
        ("_build_matching_path(back-tracking follows the stored predecessor links to a most probable predecessor; depth counts emitting entries; result reversed from the chosen entry: loop invariants)", 'backtrack', r'(^chain:|::inv-(init|preserved)::)'),
        ("_create_start_nodes(every candidate of the spatial query gets its first() call and is filed: the result is empty only without an admissible first candidate)", 'start_nodes', r'^start:(one-first|candidate|no-candidate)'),
        ("BaseMatcher.__init__('admissible' is measured with the caller's thresholds: the start radius is the given max_dist_init, else max_dist; the hard cut the given max_dist, else unbounded)", 'matcher_init', r'^init:(max_dist|min_logprob)')],
    'bounded': [
        ('alignment-postcondition', suites.case_C03, 1500, 200000, RULE + '; ' + 'non-trivial = non-empty result with an early stop or a non-emitting state on the path; unique on/off', '')],
}


SPEC['post'] = [suites.gpx_suite]


def run(tier, seed, only=None):
    return mcheck.run_property('C03', tier, seed, only, SPEC)


def replay(path):
    return mcheck.replay_generic('C03', path, {s[0]: s[1] for s in SPEC['bounded']})
