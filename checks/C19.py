"""C19 - see DESIGN.md section 5/C19.  Deductive clause groups (pyvc) + bounded suite (rtc)."""
from checks import mcheck
from contracts import lattice_vc as V
from rtc import suites

RULE = 'cases are a deterministic function of VERIF_SEED and the case number: small planar maps (2-5 nodes on the half-integer grid {0..4}^2; chain, one-way chain, cycle, star, grid, line, random edge sets, one-way feeders merging into one node; duplicated node locations and self-listed neighbours included; string, 1-based and 0-based integer labels), per suite also: a one-way block driven around more than once, feeders plus a linked parallel road, 3x3 / 4x4 street grids with sparse traces (non-emitting chains of depth >= 2); traces of 1-5 observations on the quarter grid (walks along the map with noise, on-road, sparse, outliers, repeats, random); one case in five first matches ANOTHER trace on the same matcher object; one trace in five carries time stamps as a third component (x, y, t); configurations over both matcher families, edge-only / node-and-edge states, noise in {0.09,.5,.55,1,2}, max_dist, max_dist_init, min_prob_norm, non-emitting on/off, width in {None,1,2,3}, avoid_goingback; histories of match / extend / widen (/ continue_with_distance where the suite says so)'

SPEC = {
    'level': 'other',
    'explanation': "Deductive: with `debug` a symbolic boolean, next/first return None exactly when the candidate is cut off and debug is off; otherwise the object's fields do not depend on debug and its stop flag is the cut-off verdict; update never lets a stopped candidate replace or alter a live entry and always lets a live candidate replace a stopped one. Bounded: ERROR vs DEBUG level on histories.",
    'assumptions': ['consumers of lattice entries skipping stopped ones: orchestration functions are covered by the bounded suite'],
    'deductive': [
        ('K-next(2-safety in debug)', 'next', '^(debug:|stop:)'),
        ('K-first(2-safety in debug)', 'first', '^(debug:|stop:)'),
        ('K-update(stop flags)', 'update', '^debug:'),
        ('K-upsert(a placeholder taken over by a live candidate is ordered like a new entry)', 'upsert', '^debug:'),
        ("_match_states(stopped entries are never expanded)", 'match_states', r'^select:'),
        ("non-emitting search(stopped marking only under debug; only live entries continued)", 'ne_end', r'^(debug:|ne-end:only-live)'),
        ("non-emitting search, inner levels(stopped candidates are not known states; only live entries continued)", 'ne_inner', r'^(debug:(stopped|placeholder)|ne-inner:only-live)'),
        ("_build_node_path(a stopped entry is never chosen)", 'final_choice', r'live'),
        ("_node_in_prev_ne(the visited test walks the stored best predecessors only: `prev_other` also records the predecessors of candidates that were cut off, which reach update() only under debug)", 'visited', r'^visited:only-the-best'),
        ("match(only non-stopped entries count as solutions; early stop at 0 returns ([],0); the early-stop index is reset in EVERY call, also the one that finds no start candidate - with placeholders under debug that call takes another path)", 'match', r'^(loop:(early-stop|continues)|result:(empty|early_stop_idx-reset))')],
    'bounded': [
        ('error-vs-debug-level', suites.case_C19, 1500, 200000, RULE + '; ' + 'non-trivial = at least one candidate was cut off; after every operation best_last_matches(k=1,2) (the selection continue_with_distance starts from) is compared as well', '')],
}


def run(tier, seed, only=None):
    return mcheck.run_property('C19', tier, seed, only, SPEC)


def replay(path):
    return mcheck.replay_generic('C19', path, {s[0]: s[1] for s in SPEC['bounded']})
