"""C02 - see DESIGN.md section 5/C02.  Deductive clause groups (pyvc) + bounded suite (rtc)."""
from checks import mcheck
from contracts import lattice_vc as V
from rtc import suites

RULE = 'cases are a deterministic function of VERIF_SEED and the case number: small planar maps (2-5 nodes on the half-integer grid {0..4}^2; chain, one-way chain, cycle, star, grid, line, random edge sets, one-way feeders merging into one node; duplicated node locations and self-listed neighbours included; string, 1-based and 0-based integer labels), per suite also: a one-way block driven around more than once, feeders plus a linked parallel road, 3x3 / 4x4 street grids with sparse traces (non-emitting chains of depth >= 2); traces of 1-5 observations on the quarter grid (walks along the map with noise, on-road, sparse, outliers, repeats, random); one case in five first matches ANOTHER trace on the same matcher object; one trace in five carries time stamps as a third component (x, y, t); configurations over both matcher families, edge-only / node-and-edge states, noise in {0.09,.5,.55,1,2}, max_dist, max_dist_init, min_prob_norm, non-emitting on/off, width in {None,1,2,3}, avoid_goingback; histories of match / extend / widen (/ continue_with_distance where the suite says so)'

SPEC = {
    'level': 'other',
    'explanation': 'Deductive: full postcondition of next (emitting and non-emitting arithmetic, min/length rule, which model call gets which flags), first, slot-complete replacement in update (both classes, slot list read from the class bodies), and the transition/emission functions of both matcher families against the documented formulas (accumulated distances, noise selection, every penalty under its condition, the actual predecessor). Bounded: after every operation of a history the returned best path is re-scored from scratch by an independent implementation of the documented model.',
    'assumptions': ['scipy halfnorm.logpdf closed form and the log identity of the constructor normaliser', "projection points of segment-segment (non-emitting) states are taken from the code's own geometry (contract C13/C14); their distance is recomputed exactly"],
    'deductive': [
        ('K-next(score arithmetic and model-call wiring)', 'next', '^(score:|fields:|wiring:(trans|obs))'),
        ('K-first', 'first', '^(score:|fields:|wiring:)'),
        ('K-update(slot-complete)', 'update', '^update:(slot-complete|loser|returns)'),
        ('K-trans(documented formulas)', 'trans', '^trans:'),
        ('K-obs(documented formulas)', 'obs', '^obs:'),
        ("_match_states(every call of next() gets segment objects of its own: next() writes into them)", 'match_states', '^fresh:'),
        ("non-emitting search, inner levels(segment objects per call)", 'ne_inner', '^fresh:'),
        ("non-emitting search, link to the next observation(segment objects per call)", 'ne_end', '^fresh:'),
        ("_build_matching_path(back-tracking follows the stored predecessor links to a most probable predecessor: loop invariants)", 'backtrack', r'(^chain:|::inv-(init|preserved)::)')],
    'bounded': [
        ('rescore-best-path', suites.case_C02, 1500, 200000, RULE + '; ' + 'non-trivial = the path contains a non-emitting state or the history has more than one operation; histories of <= 4 operations (match, extend, widen)', '')],
}


def run(tier, seed, only=None):
    return mcheck.run_property('C02', tier, seed, only, SPEC)


def replay(path):
    return mcheck.replay_generic('C02', path, {s[0]: s[1] for s in SPEC['bounded']})
