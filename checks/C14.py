"""C14 - geodesic primitives agree with spherical geometry."""
from checks import mcheck
from contracts import geodesic as GD
from rtc import geo_suites

SPEC = {
    'level': 'other',
    'timeout_ms': 60000,
    'explanation': "Deductive (trigonometry as algebraic atoms with the exact identities instantiated; inverse functions through a small lemma base): distance_haversine_radians - both square-root arguments are in range (0 <= a <= 1) and the angle theta = atan2(sqrt a, sqrt(1-a)) satisfies cos(2 theta) = u1.u2 for the unit vectors of the two locations with theta in the first quadrant, i.e. the result 2 R theta is R arccos(u1.u2), the great-circle distance on the 6371 km sphere; destination_radians - the asin argument is in [-1,1], sin(lat2) is the spherical-triangle formula, the atan2 arguments have radius cos(lat1)cos(lat2) and the destination is at angular distance exactly d from the start (u1.u2 = cos d). Bounded: every primitive against an independent 3-D unit-vector reference (point-to-segment distance / projection / relative position, end-point swap, segment-to-segment, destination inverts distance-and-bearing, box contains sampled disc) at 7 anchors incl. the southern hemisphere.",
    'assumptions': ["lemma base (trusted, code-independent facts of real analysis): sin(asin z) = z with cos >= 0; atan2(y,x) = theta with x = r cos theta, y = r sin theta, r = sqrt(x^2+y^2); arccos is the inverse of cos on [0, pi]",
                    "|lat| <= pi/2 (cos lat >= 0) as precondition; away from the poles for destination (cos lat1 > 0)",
                    "cross-track / along-track correctness, box-contains-disc and all tolerance statements are bounded only: 12 cm absolute (acos near 1 resolves angles to ~1.5e-8 rad ~ 9.5 cm) + 1e-6 relative; segment-segment additionally 2 L^2/R for the local planar frame"],
    'deductive': [("haversine = great-circle distance (trig atoms)", 'haversine', r'.'), ("destination (direct problem) identities", 'destination', r'.')],
    'bounded': [('primitives-vs-3D-reference', geo_suites.case_C14, 3000, 300000,
                 "segment lengths log-uniform 0.1 m .. 5 km at 9 anchors (lat 0, +-35, +-59, 50.9, -23.5, 69.65, -54.8), query points within a few segment lengths, "
                 "constrained and unconstrained (great-circle foot, signed position) point-to-segment, project(), zero-length segments, end-point swap, directed probes on 1-8 km segments (foot decimetres from the first end point) and on 20-150 km links (query kilometres off), segment pairs (one in four CONNECTED: an end point shared exactly, all four combinations) with the reported points required to lie at the reported relative positions, "
                 "box radii 1 m .. 100 km with the extreme-longitude and cardinal points of the disc plus 72 sampled directions; "
                 "non-trivial = projection strictly inside the segment and query off the segment", "")],
    'extra_builders': {'haversine': lambda prog, tier: [GD.vc_haversine(prog)], 'destination': lambda prog, tier: [GD.vc_destination(prog)]},
}


def run(tier, seed, only=None):
    return mcheck.run_property('C14', tier, seed, only, SPEC)


def replay(path):
    return mcheck.replay_generic('C14', path, {s[0]: s[1] for s in SPEC['bounded']})
