"""Shared driver for the matcher-side property checks: deductive clause groups (pyvc) + bounded suites (rtc)."""
import json
import os
import re
import time
import z3

from checks.common import Check, VERIF
from pyvc.interp import Program
from pyvc import solve, models
from contracts import lattice as K, lattice_vc as V, prune as P, orchestration as OC, match_fn as MF, ne_levels as NL
from rtc import runner, suites
from contracts import maps as _M


def catalog(prog, tier):
    """name -> thunk returning list of (fv, rep).  Scenario sets: the quick tier uses every scenario as well (they are cheap)."""
    inf = ((False, False), (True, True), (True, False), (False, True)) if tier == 'thorough' else ((False, False), (True, True))
    return {
        'next': lambda: [V.vc_next(prog, fam, mpt, opt, mi, li) for fam in ('base', 'distance') for mpt in (True, False)
                         for opt in (True, False) for mi, li in inf] +
                        [V.vc_next(prog, 'base', False, opt, False, False, preset_proj=True) for opt in (True, False)],
        'first': lambda: [V.vc_first(prog, fam, mi, li, mpt) for fam in ('base', 'distance') for mpt in (True, False) for mi, li in inf],
        'do_stop': lambda: [V.vc_do_stop(prog, a, b) for a in (False, True) for b in (False, True)],
        'update': lambda: [V.vc_update(prog, c) for c in ('BaseMatching', 'DistanceMatching')],
        'upsert': lambda: [V.vc_upsert(prog, c, n, k) for c in ('BaseMatching', 'DistanceMatching') for n in (0, 1, 2) for k in (0, 1, 2)],
        'set_delayed': lambda: [V.vc_set_delayed(prog)],
        'prune': lambda: [P.vc_prune(prog, t, w) for t in (False, True) for w in (False, True)],
        'obs': lambda: [V.vc_obs_distance(prog), V.vc_obs_simple(prog)],
        'match_states': lambda: [OC.vc_match_states(prog, k, f) for k, f in (('node', 'base'), ('edge', 'base'), ('edge', 'distance'))],
        'start_nodes': lambda: [OC.vc_create_start_nodes(prog, ue, fam, ex) for ue, fam, ex in ((True, 'base', False), (False, 'base', False), (True, 'distance', False), (True, 'base', True))],
        'final_choice': lambda: [OC.vc_build_node_path_choice(prog, le) for le in (False, True)],
        'path_tail': lambda: [OC.vc_build_node_path_tail(prog, u) for u in (True, False)],
        'backtrack': lambda: [OC.vc_build_matching_path(prog, d) for d in (False, True)],
        'match': lambda: [MF.vc_match(prog, ex, sp, w) for ex, sp, w in ((False, False, False), (True, False, False), (True, True, False), (False, False, True), (True, False, True))],
        'only_nodes': lambda: [OC.vc_only_nodes(prog, aj) for aj in (False, True)] + [OC.vc_only_nodes(prog, False, walk=True)],
        'get_path': lambda: [OC.vc_get_path(prog, on, oc, sd) for on in (True, False) for oc in (True, False) for sd in ('none', 'empty', 'states')] +
                            [OC.vc_path_pred_props(prog, w) for w in (False, True)],
        'inmem_nbrs': lambda: [_M.vc_inmem_nodes_nbrto(prog)] + [_M.vc_edges_nbrto(prog, 'InMemMap', l) for l in ('none', 'empty', 'some')] + [_M.vc_edges_nbrto(prog, 'BaseMap', 'none')],
        'widen': lambda: [MF.vc_increase_width(prog, ow) for ow in (False, True)],
        'ne_levels': lambda: [NL.vc_ne_levels(prog, w, ex) for w in (False, True) for ex in (False, True)],
        'visited': lambda: [NL.vc_node_in_prev_ne(prog, k) for k in ('edge', 'node')],
        'matcher_init': lambda: [NL.vc_matcher_init(prog)],
        'ne_depth': lambda: [NL.vc_ne_depth_bound(prog)],
        'ne_end': lambda: [OC.vc_ne_end(prog, k, f) for k, f in (('node', 'base'), ('edge', 'base'), ('edge', 'distance'))],
        'ne_inner': lambda: [OC.vc_ne_inner(prog, k, f) for k, f in (('node', 'base'), ('edge', 'base'), ('edge', 'distance'))],
        'trans': lambda: [V.vc_trans_distance(prog, o, h) for o in (True, False) for h in (True, False)] +
                         [V.vc_trans_simple(prog, m, h) for m in (True, False) for h in (True, False)],
    }


def clause_of(name):
    m = re.search(r'::(.*)\[p\d+\]$', name)
    return m.group(1) if m else name


def run_property(pid, tier, seed, only, spec):
    chk = Check(pid, tier, seed, level=spec.get('level', 'other'))
    chk.explanation = spec['explanation']
    chk.assume(*models.ASSUMED)
    chk.assume(*spec.get('assumptions', []))
    chk.trusted_base = ["pyvc symbolic interpreter (/verif/pyvc)", "z3 5.1 (cvc5 1.0.3, z3 4.8.12 as fall-backs)",
                        "sidecar contracts in /verif/contracts (callee contracts used as assumptions are proved for their own bodies in the "
                        "checks named in DESIGN.md appendix A)"]
    prog = Program()
    K.load_all(prog)
    from contracts import maps as _M
    _M.load(prog)
    cat = catalog(prog, tier)
    extra = spec.get('extra_builders', {})
    timeout = spec.get('timeout_ms', 15000) if tier == 'quick' else max(90000, spec.get('timeout_ms', 0) * 3)
    built = {}
    implicit_done = {}
    for group, source, rx in spec.get('deductive', []):
        if only and not re.search(only, group):
            continue
        if source not in built:
            thunk = cat.get(source) or extra.get(source)
            built[source] = thunk() if source in cat else thunk(prog, tier)
        obs, nfun = [], 0
        for fv, rep in built[source]:
            chk.add_function(prog.span(fv))
            if rep.unsupported:
                lab = [u for u in set(rep.unsupported) if 'label genericity' in u]
                if lab and pid == 'C16':
                    # C16 obligation: functions under contract type-check against labels as an equality-only sort
                    chk.violation(key=f"C16:label-genericity:{rep.name}", text=f"{rep.name}: {lab[0]}",
                                  replay={'kind': 'deductive', 'obligation': 'label-genericity', 'function': rep.name, 'diagnostic': lab,
                                          'note': 'a node label is used in a way that is not invariant under renaming (truthiness, ordering or arithmetic)'},
                                  reproduced=False)
                rest = [u for u in set(rep.unsupported) if u not in lab or pid != 'C16']
                if rest:
                    chk.undecided.append(f"{rep.name}: unsupported construct(s): {sorted(rest)[:3]}")
            IMPLICIT = ('AttributeError', 'TypeError', 'KeyError', 'IndexError', 'NameError', 'UnboundLocalError')
            is_implicit = lambda o: o.kind == 'no-raise' and str((o.extra or {}).get('exc', '')).split(':')[0] in IMPLICIT
            sel = [o for o in rep.obligations if re.search(rx, clause_of(o.name)) and not is_implicit(o)]
            obs += sel
            # a path that ends in an exception Python itself raises (missing attribute, wrong type, missing key ...) means the
            # code no longer fits the pre-state the sidecar contract builds: the clauses of that path were not generated, so
            # the group is UNDECIDED (never silently smaller, never a violation by itself)
            implicit = [o for o in rep.obligations if is_implicit(o)]
            if implicit:
                key_ = (source, rep.name)
                if key_ not in implicit_done:
                    implicit_done[key_] = [r_ for r_ in solve.discharge(implicit, timeout_ms=8000) if r_.verdict != 'proved']
                if implicit_done[key_]:
                    r_ = implicit_done[key_][0]
                    chk.undecided.append(f"{rep.name}: a path ends in {(r_.ob.extra or {}).get('exc', '')[:120]} - the contract's pre-state no longer fits the code; "
                                         f"its clauses were not generated")
        if not obs:
            chk.undecided.append(f"{group}: zero obligations selected by /{rx}/ (vacuous)")
            continue
        res = solve.discharge(obs, timeout_ms=timeout)
        from contracts import replay_lattice
        chk.record(res, group, replayer=spec.get('replayer', replay_lattice.replayer), tolerate_unknown=spec.get('tolerate_unknown'))
    # vacuity canaries: per source one deliberately false clause on a returning path must be refuted
    for source, reps in built.items():
        for fv, rep in reps[:2]:
            rets = [(k, pc) for k, pc in rep.path_pcs if k == 'ret']
            if rets:
                from pyvc.interp import Obligation
                # a deliberately false clause on a returning path must be refuted; a path whose condition is contradictory
                # (e.g. the continuation after a `break` that the contract shows unreachable) cannot serve as canary: try the next
                r = None
                for k_, pc_ in rets[:8]:
                    r = solve.discharge([Obligation(f"{rep.name}::canary-false", pc_, z3.BoolVal(False), 'canary')], timeout_ms=8000)
                    if r[0].verdict == 'refuted':
                        break
                chk.record(r, 'canary')
    for suite, fn, nq, nt, rule, bounds in spec.get('bounded', []):
        if only and not re.search(only, suite):
            continue
        n = nq if tier == 'quick' else nt
        base = (seed * 1000003) % (2 ** 31)
        res = runner.run_cases(fn, range(base, base + n))
        runner.book(chk, suite, res, rule, bounds)
        ke = sum(r.get('knife_edge', 0) for r in res if not r.get('error'))
        if ke:
            chk.extra.setdefault('excluded_knife_edge', {})[suite] = ke
    for fn in spec.get('post', []):
        fn(chk, tier, seed)
    return chk.finish()


def replay_generic(pid, path, case_fns):
    """Re-run the bounded case of a replay file on the current tree (case functions are deterministic in their seed)."""
    data = json.load(open(path))
    print(json.dumps({k: data[k] for k in data if k in ('property', 'key', 'text', 'suite', 'obligation', 'solver')}, indent=1))
    if data.get('kind') == 'bounded' and 'seed_case' in data:
        fn = case_fns.get(data.get('suite'))
        if fn:
            r = fn(data['seed_case'])
            print("replayed:", r.get('violations'))
            return 1 if r.get('violations') else 0
    return 0
