"""C04 - see DESIGN.md section 5/C04.  Deductive clause groups (pyvc) + bounded suite (rtc)."""
from checks import mcheck
from contracts import lattice_vc as V
from rtc import suites

RULE = 'cases are a deterministic function of VERIF_SEED and the case number: small planar maps (2-5 nodes on the half-integer grid {0..4}^2; chain, one-way chain, cycle, star, grid, line, random edge sets, one-way feeders merging into one node; duplicated node locations and self-listed neighbours included; string, 1-based and 0-based integer labels), per suite also: a one-way block driven around more than once, feeders plus a linked parallel road, 3x3 / 4x4 street grids with sparse traces (non-emitting chains of depth >= 2); traces of 1-5 observations on the quarter grid (walks along the map with noise, on-road, sparse, outliers, repeats, random); one case in five first matches ANOTHER trace on the same matcher object; one trace in five carries time stamps as a third component (x, y, t); configurations over both matcher families, edge-only / node-and-edge states, noise in {0.09,.5,.55,1,2}, max_dist, max_dist_init, min_prob_norm, non-emitting on/off, width in {None,1,2,3}, avoid_goingback; histories of match / extend / widen (/ continue_with_distance where the suite says so)'

SPEC = {
    'level': 'other',
    'explanation': 'Deductive: next links the new entry to exactly the entry it was called on and stores the map segment it was given; update copies (edge_m, prev) together. Bounded: every consecutive pair of the best path is the same state or a move of an independent adjacency view of the map; every state exists; the nodes-only view is computable and pairwise adjacent.',
    'assumptions': ['A2: string renderings of labels are injective', 'successor generation call sites are covered by the bounded suite only (orchestration functions are not yet under contract)'],
    'deductive': [
        ('K-next(prev and edge slots)', 'next', '^fields:(prev|edges)'),
        ('K-update(edge_m and prev move together)', 'update', '^update:slot-complete\\[(edge_m|prev)\\]'),
        ("_match_states(call-site precondition of next: only moves the map offers, map coordinates)", 'match_states', r'^(walk:|insert:)'),
        ("non-emitting search(call-site precondition of next: only moves the map offers)", 'ne_end', r'^walk:'),
        ("non-emitting search, same observation(call-site precondition of next)", 'ne_inner', r'^walk:'),
        ("_build_node_path(returned sequence = state keys of the back-tracked entries in order; unique removes exactly the immediate repetitions: loop invariant)", 'path_tail', r'(^tail:|^unique:|::inv-(init|preserved)::)'),
        ("_build_matching_path(back-tracking follows the stored predecessor links to a most probable predecessor; depth counts emitting entries; result reversed from the chosen entry: loop invariants)", 'backtrack', r'(^chain:|::inv-(init|preserved)::)'),
        ("node_path_to_only_nodes(nodes-only view of a state sequence of arbitrary length, nodes and edges in any mix: a stay adds nothing, a node state adds itself iff new, an edge attached to the last node adds exactly its other end whichever way round it is stored, an unattached edge raises the documented exception or - jumps allowed - adds both ends; prev_node = last output node: loop invariant; LEMMA for the last sentence of C04: if every edge state is an edge of the map and every consecutive pair is the same state or a move the map offers (no linked parallel edges, no jumps) then no path raises and every node added is adjacent to and different from the node before it - extra invariant prev_node = end node of the preceding state)", 'only_nodes', r'(^only-nodes:|^walk:|::inv-(init|preserved)::|no-raise)'),
        ("get_path / path_pred_onlynodes / path_pred_onlynodes_withjumps(the nodes-only view a user reads is ONE conversion of the stored state sequence; its only edit: nodes dropped at the ENDS of the converted list - a contiguous part of a pairwise adjacent sequence; nothing is written; the stricter clauses 'only the first node, iff the first match lies beyond the middle of its edge' and the hand-over of the jump permission are in the contract but not selected here: C04 does not speak about them - on a walk the jump branch is never taken, lemma above)", 'get_path', r'(^get-path:(?!first-node-dropped|only-the-first|jump-permission)|no-raise)'),
        ("InMemMap.nodes_nbrto / InMemMap.edges_nbrto / BaseMap.edges_nbrto against the abstract view of the graph (arbitrary size, dangling references and nodes without a location allowed): a listed label yields one tuple iff it is a node with a location; the edges offered are exactly those leaving the END node of the given edge plus the pairs declared as linked to THIS directed edge, with the map's locations - the neighbour-query contract the matcher-side proofs assume, discharged for the in-memory backend; C04 selects the soundness direction (whatever is offered is a move of the abstract view, with the map's locations); completeness of the queries is claimed by C01 and C12", 'inmem_nbrs', r'(^nbrs:(?!complete)|^enbrs:(?!complete)|no-raise)'),
        ("K-upsert(distinct states are filed under distinct keys: the key is the tuple of labels, observation index and depth)", 'upsert', r'^upsert:absent')],
    'bounded': [
        ('walk-in-the-graph', suites.case_C04, 1500, 200000, RULE + '; ' + 'one case in six with labels that are strings of exactly two characters; for every edge of every map the moves edges_nbrto offers are compared with the road graph and the declared links; non-trivial = best path visits at least two different states; histories of <= 4 operations', '')],
}


def run(tier, seed, only=None):
    return mcheck.run_property('C04', tier, seed, only, SPEC)


def replay(path):
    return mcheck.replay_generic('C04', path, {s[0]: s[1] for s in SPEC['bounded']})
