"""C10 - see DESIGN.md section 5/C10.  Deductive clause groups (pyvc) + bounded suite (rtc)."""
from checks import mcheck
from contracts import lattice_vc as V
from rtc import suites

RULE = 'cases are a deterministic function of VERIF_SEED and the case number: small planar maps (2-5 nodes on the half-integer grid {0..4}^2; chain, one-way chain, cycle, star, grid, line, random edge sets, one-way feeders merging into one node; duplicated node locations and self-listed neighbours included; string, 1-based and 0-based integer labels), per suite also: a one-way block driven around more than once, feeders plus a linked parallel road, 3x3 / 4x4 street grids with sparse traces (non-emitting chains of depth >= 2); traces of 1-5 observations on the quarter grid (walks along the map with noise, on-road, sparse, outliers, repeats, random); one case in five first matches ANOTHER trace on the same matcher object; one trace in five carries time stamps as a third component (x, y, t); configurations over both matcher families, edge-only / node-and-edge states, noise in {0.09,.5,.55,1,2}, max_dist, max_dist_init, min_prob_norm, non-emitting on/off, width in {None,1,2,3}, avoid_goingback; histories of match / extend / widen (/ continue_with_distance where the suite says so)'

SPEC = {
    'level': 'other',
    'explanation': 'Bounded: node-order and neighbour-order permutations in process; PYTHONHASHSEED sub-process runs. Deductive support: keep-the-first-of-equals in update, tie extension in prune.',
    'assumptions': ['CPython randomises only str/bytes hashes (PYTHONHASHSEED)'],
    'deductive': [
        ('K-update(ties keep the stored entry; the merged entry is the winner in EVERY slot, so the order in which candidates arrive does not matter)', 'update', '^update:(returns-replaced|slot-complete)'),
        ('K-prune(tie extension)', 'prune', 'prune:(all-ties|only-ties|dropped-are|kept-is|no-postponed)'),
        ("_build_node_path(choice is a function of the listing order: first of equals)", 'final_choice', r'first'),
        ("_match_states(every call of next() gets segment objects of its own: next() writes into them)", 'match_states', '^fresh:'),
        ("non-emitting search, inner levels(segment objects per call)", 'ne_inner', '^fresh:'),
        ("non-emitting search, link to the next observation(segment objects per call)", 'ne_end', '^fresh:'),
        ("order independence of the expansion: for EVERY predecessor and EVERY neighbour the candidate is generated, and candidates for the same state are merged by keep-the-better (never first-come-first-served)", 'match_states', r'^(cover:|insert:)'),
        ("order independence of the non-emitting step: one call per admissible neighbour of every live entry; filed or merged through update()", 'ne_inner', r'^(ne-inner:one-non|file:)'),
        ("order independence of the link to the next observation", 'ne_end', r'^ne-end:(one-emitting|worse|new-state|dropped|next-column|frame)'),
        ("_node_in_prev_ne(walks back over `prev` only - a set that holds one entry - so hash order cannot decide the answer)", 'visited', r'^visited:')],
    'bounded': [
        ('map-order-permutations', suites.case_C10, 1500, 200000, RULE + '; ' + 'best_last_matches(k=1,2) (what continue_with_distance jumps on from) compared as well when the last columns hold no exact tie; non-trivial = >= 3 nodes or an exact tie in some column', '')],
}


def hashseed_suite(chk, tier, seed):
    """Same cases in sub-processes under different PYTHONHASHSEED values: the canonical result (index, states, keys and
    log-probabilities of the best path) must be identical, no exclusion."""
    import json, os, subprocess, sys
    from checks.common import VERIF, REPO
    n = 400 if tier == 'quick' else 6000
    base = (seed * 7919) % (2 ** 30)
    outs = {}
    for hs in (['0', '1', '2'] if tier == 'quick' else ['0', '1', '2', '3', 'random']):
        env = dict(os.environ, PYTHONHASHSEED=hs, PYTHONPATH=f"{REPO}:{VERIF}")
        p = subprocess.run([sys.executable, '-W', 'ignore', os.path.join(VERIF, 'rtc', 'hashseed_child.py'), str(base), str(base + n)],
                           capture_output=True, text=True, env=env, timeout=3000)
        try:
            outs[hs] = json.loads(p.stdout.strip().splitlines()[-1])
        except Exception:
            chk.undecided.append(f"hash-seed child failed under PYTHONHASHSEED={hs}: {p.stderr[-300:]}")
            return
    ref = outs['0']
    nontriv = 0
    for i, r in enumerate(ref):
        if len(r) > 2 and len(r[2]) >= 2:
            nontriv += 1
        for hs, o in outs.items():
            if o[i] != r:
                chk.violation(key='C10:result-depends-on-the-hash-seed', text=f"case {r[0]}: PYTHONHASHSEED=0 -> {r[1:3]}, PYTHONHASHSEED={hs} -> {o[i][1:3]}",
                              replay={'kind': 'bounded', 'suite': 'hash-seeds', 'case_seed': r[0], 'seed0': r, f'seed{hs}': o[i]})
                break
    chk.bounded_suite('hash-seeds(sub-processes)', n * len(outs), nontriv, [ref[0], ref[1]] if len(ref) > 1 else ref,
                      RULE + f"; string labels; each case run in {len(outs)} sub-processes with PYTHONHASHSEED in {sorted(outs)}; non-trivial = best path with >= 2 states", '')


SPEC['post'] = [hashseed_suite]


def run(tier, seed, only=None):
    return mcheck.run_property('C10', tier, seed, only, SPEC)


def replay(path):
    return mcheck.replay_generic('C10', path, {s[0]: s[1] for s in SPEC['bounded']})
