"""C10 - see DESIGN.md section 5/C10.  Deductive clause groups (pyvc) + bounded suite (rtc)."""
from checks import mcheck
from contracts import lattice_vc as V
from rtc import suites

RULE = 'cases are a deterministic function of VERIF_SEED and the case number: small planar maps (2-5 nodes on the half-integer grid {0..4}^2; chain, one-way chain, cycle, star, grid, line, random edge sets; duplicates and self-listed neighbours included), traces of 1-5 observations on the quarter grid (walks along the map with noise, on-road, sparse, outliers, repeats, random), configurations over both matcher families, edge-only / node-and-edge states, noise in {0.09,.5,.55,1,2}, max_dist, max_dist_init, min_prob_norm, non-emitting on/off, width in {None,1,2,3}, avoid_goingback'

SPEC = {
    'level': 'other',
    'explanation': 'Bounded: node-order and neighbour-order permutations in process; PYTHONHASHSEED sub-process runs. Deductive support: keep-the-first-of-equals in update, tie extension in prune.',
    'assumptions': ['CPython randomises only str/bytes hashes (PYTHONHASHSEED)'],
    'deductive': [
        ('K-update(ties keep the stored entry)', 'update', '^update:returns-replaced'),
        ('K-prune(tie extension)', 'prune', 'prune:(all-ties|only-ties|dropped-are|kept-is|no-postponed)'),
        ("_build_node_path(choice is a function of the listing order: first of equals)", 'final_choice', r'first')],
    'bounded': [
        ('map-order-permutations', suites.case_C10, 1500, 25000, RULE + '; ' + 'non-trivial = >= 3 nodes or an exact tie in some column', '')],
}


def run(tier, seed, only=None):
    return mcheck.run_property('C10', tier, seed, only, SPEC)


def replay(path):
    return mcheck.replay_generic('C10', path, {s[0]: s[1] for s in SPEC['bounded']})
