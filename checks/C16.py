"""C16 - see DESIGN.md section 5/C16.  Deductive clause groups (pyvc) + bounded suite (rtc)."""
from checks import mcheck
from contracts import lattice_vc as V
from rtc import suites

RULE = 'cases are a deterministic function of VERIF_SEED and the case number: small planar maps (2-5 nodes on the half-integer grid {0..4}^2; chain, one-way chain, cycle, star, grid, line, random edge sets, one-way feeders merging into one node; duplicated node locations and self-listed neighbours included; string, 1-based and 0-based integer labels), per suite also: a one-way block driven around more than once, feeders plus a linked parallel road, 3x3 / 4x4 street grids with sparse traces (non-emitting chains of depth >= 2); traces of 1-5 observations on the quarter grid (walks along the map with noise, on-road, sparse, outliers, repeats, random); one case in five first matches ANOTHER trace on the same matcher object; one trace in five carries time stamps as a third component (x, y, t); configurations over both matcher families, edge-only / node-and-edge states, noise in {0.09,.5,.55,1,2}, max_dist, max_dist_init, min_prob_norm, non-emitting on/off, width in {None,1,2,3}, avoid_goingback; histories of match / extend / widen (/ continue_with_distance where the suite says so)'

SPEC = {
    'level': 'other',
    'explanation': "Deductive: label genericity - every lattice/matcher function under contract is executed with labels as an equality-only uninterpreted sort (any ordered comparison or arithmetic on a label is an 'unsupported' diagnostic); the transition formulas depend on labels only through equalities. Bounded: relabelling, reordering, axis swap, scaling by 2^k, translation.",
    'assumptions': ['knife-edge rule: equally probable alternatives / near-ties at a cut flipped by rounding are counted as excluded, not as violations', "scipy's logpdf is not exactly scale invariant: 1e-9 relative tolerance on probabilities for scaling and translation"],
    'deductive': [
        ('label-genericity(next)', 'next', '^wiring:'),
        ('label-genericity(trans)', 'trans', '^trans:formula'),
        ('label-genericity(upsert keys)', 'upsert', '^upsert:absent'),
        ("label-genericity(_match_states)", 'match_states', r'^cover:'),
        ("label-genericity(non-emitting search)", 'ne_inner', r'^ne-inner:one-non'),
        ("label-genericity(non-emitting link)", 'ne_end', r'^ne-end:one-emitting'),
        ("renaming / re-listing cannot change which projections a state carries: every call of next() gets segment objects of its own (_match_states)", 'match_states', '^fresh:'),
        ("segment objects per call (non-emitting step)", 'ne_inner', '^fresh:'),
        ("segment objects per call (link to the next observation)", 'ne_end', '^fresh:'),
        ("K-update(the merged entry is the winner in EVERY slot: nothing of the first-listed candidate survives a better one)", 'update', r'^update:slot-complete')],
    'bounded': [
        ('transformations', suites.case_C16, 1500, 200000, RULE + '; ' + 'non-trivial = best path has >= 2 states; transformations: pure renaming, reorder, axis swap, scale 2^k for k in {-8,-3,-1,1,3,10,20}, translation by representable offsets (no pruning)', '')],
}


def run(tier, seed, only=None):
    return mcheck.run_property('C16', tier, seed, only, SPEC)


def replay(path):
    return mcheck.replay_generic('C16', path, {s[0]: s[1] for s in SPEC['bounded']})
