"""Shared driver code: verdict bookkeeping, known findings, replay files, evidence."""
import json
import os
import re
import sys
import time
import hashlib
import traceback

VERIF = os.path.dirname(os.path.dirname(os.path.abspath(__file__)))
REPO = os.environ.get('VERIF_REPO', '/repo')
# scratch runs (seeded changes in a copy of the repository) write their evidence / replays elsewhere
OUT = os.environ.get('VERIF_EVIDENCE_DIR') or VERIF


def assert_repo_package():
    import leuvenmapmatching
    f = os.path.realpath(leuvenmapmatching.__file__)
    if not f.startswith(os.path.realpath(REPO) + os.sep):
        print(f"checker error: leuvenmapmatching resolves to {f}, not under {REPO}", file=sys.stderr)
        sys.exit(3)


def load_findings():
    p = os.path.join(VERIF, 'known_findings.json')
    if not os.path.exists(p):
        return {'findings': [], 'fixed': []}
    return json.load(open(p))


def jsonable(x, depth=0):
    from fractions import Fraction
    if depth > 6:
        return repr(x)[:200]
    if isinstance(x, (str, int, bool)) or x is None:
        return x
    if isinstance(x, float):
        if x != x or x in (float('inf'), float('-inf')):
            return repr(x)
        return x
    if isinstance(x, Fraction):
        return float(x)
    if isinstance(x, dict):
        return {str(k): jsonable(v, depth + 1) for k, v in x.items()}
    if isinstance(x, (list, tuple, set, frozenset)):
        return [jsonable(v, depth + 1) for v in x]
    try:
        import numpy as np
        if isinstance(x, np.generic):
            return jsonable(x.item(), depth + 1)
    except Exception:
        pass
    return repr(x)[:300]


class Check:
    def __init__(self, pid, tier='quick', seed=0, level='other'):
        self.pid, self.tier, self.seed, self.level = pid, tier, seed, level
        self.t0 = time.time()
        self.functions = []           # spans of functions under contract
        self.results = []             # deductive results (Result)
        self.ob_groups = {}           # group -> [n, proved]
        self.bounded = {}             # suite -> dict(evaluations, nontrivial, samples, rule, bounds, exhaustive)
        self.assumptions = []
        self.violations = []          # (key, text, replay_path, suffix)
        self.known_hits = []
        self.undecided = []
        self.not_counted = []
        self.more_of_same = {}
        self.notes = []
        self.findings = [f for f in load_findings().get('findings', []) if f.get('property') == pid]
        self.solver_time = 0.0
        self.backends = {}
        self.canaries = []
        self.explanation = ''
        self.trusted_base = []
        self.checker_cmd = f"bin/check {pid} --tier {tier}"
        self.extra = {}
        os.makedirs(os.path.join(OUT, 'replays', pid), exist_ok=True)

    # ------------------------------------------------------------------ deductive part
    def add_function(self, span):
        if span not in self.functions:
            self.functions.append(span)

    def assume(self, *texts):
        for t in texts:
            if t not in self.assumptions:
                self.assumptions.append(t)

    def record(self, results, group, replayer=None, tolerate_unknown=None):
        """Book deductive results.  `replayer(result) -> (reproduced: bool, info: dict)` replays a counter-model on
        the real code.  Obligations whose names match `expect_refuted` are canaries (must be refuted)."""
        g = self.ob_groups.setdefault(group, {'n': 0, 'proved': 0, 'time': 0.0})
        for r in results:
            name = r.ob.name
            self.solver_time += r.time
            self.backends[r.solver if r.verdict != 'unknown' else 'none'] = \
                self.backends.get(r.solver if r.verdict != 'unknown' else 'none', 0) + 1
            if r.ob.kind == 'canary':
                ok = r.verdict == 'refuted'
                self.canaries.append((name, ok))
                if not ok:
                    self.undecided.append(f"canary {name} was not refuted ({r.verdict}) - vacuous contract?")
                continue
            g['n'] += 1
            g['time'] += r.time
            self.results.append(r)
            if r.verdict == 'proved':
                g['proved'] += 1
            elif r.verdict == 'refuted':
                info = {}
                reproduced = False
                if replayer is not None:
                    try:
                        reproduced, info = replayer(r)
                    except Exception as e:
                        info = {'replay_error': repr(e), 'traceback': traceback.format_exc()[-1500:]}
                self.violation(key=f"obligation:{name}",
                               text=f"obligation {name} refuted by {r.solver}",
                               replay={'kind': 'deductive', 'obligation': name, 'where': r.ob.where,
                                       'solver': r.solver, 'solver_time_s': round(r.time, 3),
                                       'model': r.model, 'reproduced_on_real_code': reproduced, 'replay': info},
                               reproduced=reproduced)
            elif tolerate_unknown and re.search(tolerate_unknown, name):
                # no back end decides this clause within the budget on the unchanged tree: removed from the counted
                # set, named here, carried by the bounded stand-in of this property (never counted as proved)
                g['n'] -= 1
                self.not_counted.append(name)
            else:
                self.undecided.append(f"obligation {name}: {r.verdict} ({r.solver})")

    # ------------------------------------------------------------------ bounded part
    def bounded_suite(self, name, evaluations, nontrivial, samples, rule, bounds='', exhaustive=False):
        self.bounded[name] = {'evaluations': int(evaluations), 'distinct_nontrivial': int(nontrivial),
                              'samples': jsonable(samples[:5]), 'rule': rule, 'bounds': bounds,
                              'exhaustive': bool(exhaustive), 'label': 'bounded (never counted as proved)'}

    # ------------------------------------------------------------------ verdicts
    def violation(self, key, text, replay, reproduced=True):
        for f in self.findings:
            if re.search(f['match'], key) and (not f.get('witness') or re.search(f['witness'], json.dumps(jsonable(replay)))):
                hit = f"KNOWN-FINDING: property={self.pid} {f['id']} {f['what']}"
                if hit not in self.known_hits:
                    self.known_hits.append(hit)
                    print(hit)
                return
        if any(k == key for k, *_ in self.violations):
            self.more_of_same[key] = self.more_of_same.get(key, 0) + 1
            return
        h = hashlib.sha1(key.encode()).hexdigest()[:10]
        path = os.path.join(OUT, 'replays', self.pid, f"{h}.json")
        replay = dict(replay)
        replay.update({'property': self.pid, 'key': key, 'text': text, 'tier': self.tier, 'seed': self.seed})
        with open(path, 'w') as f:
            json.dump(jsonable(replay), f, indent=1)
        self.violations.append((key, text, path, '' if reproduced else ' no-failing-input-found'))

    def finish(self):
        wall = time.time() - self.t0
        n_ob = sum(g['n'] for g in self.ob_groups.values())
        n_pr = sum(g['proved'] for g in self.ob_groups.values())
        cov = {
            'explanation': self.explanation,
            'functions_under_contract': self.functions,
            'obligations': n_ob,
            'discharged': n_pr,
            'obligation_groups': {k: {'obligations': v['n'], 'discharged': v['proved'], 'solver_time_s': round(v['time'], 2)}
                                  for k, v in self.ob_groups.items()},
            'back_ends': self.backends,
            'solver_time_s': round(self.solver_time, 2),
            'canaries_refuted': sum(1 for _, ok in self.canaries if ok),
            'canaries_total': len(self.canaries),
            'checker_cmd': self.checker_cmd,
            'trusted_base': self.trusted_base,
            'bounded': self.bounded,
            'evaluations': sum(b['evaluations'] for b in self.bounded.values()),
            'distinct_nontrivial': sum(b['distinct_nontrivial'] for b in self.bounded.values()),
            'rule': ' | '.join(f"{k}: {b['rule']}" for k, b in self.bounded.items()),
            'samples': ([{'obligation': r.ob.name, 'verdict': r.verdict, 'solver': r.solver,
                          'time_s': round(r.time, 3), 'hyps': len(r.ob.hyps)} for r in self.results[:6]]
                        + [{'suite': k, 'case': s} for k, b in self.bounded.items() for s in b['samples'][:2]]) or ['none'],
            'exhaustive': False,
            'undecided': self.undecided,
            'attempted_but_undecided_not_counted': {'n': len(self.not_counted), 'names': self.not_counted[:40]},
            'known_findings_hit': self.known_hits,
            'notes': self.notes,
        }
        cov.update(self.extra)
        if cov['evaluations'] == 0:
            # no bounded part: drop exploration-style keys so that nobody mistakes them for measurements
            for k in ('evaluations', 'distinct_nontrivial', 'rule'):
                cov.pop(k)
        ev = {'property_id': self.pid, 'tier': self.tier, 'seed': int(self.seed), 'level': self.level,
              'coverage': cov, 'assumptions': self.assumptions, 'wall_s': round(wall, 2),
              'violations': len(self.violations)}
        os.makedirs(os.path.join(OUT, 'evidence'), exist_ok=True)
        with open(os.path.join(OUT, 'evidence', f"{self.pid}.json"), 'w') as f:
            json.dump(jsonable(ev), f, indent=1)
        for n_, (key, text, path, suffix) in enumerate(self.violations):
            if n_ == 15:
                print(f"  ... {len(self.violations) - 15} more violation(s), see evidence / replays")
                break
            print(f"VIOLATION property={self.pid} replay={path}{suffix}")
            print(f"  {text}" + (f"  (+{self.more_of_same[key]} more with the same key)" if key in self.more_of_same else ''))
        print(f"[{self.pid}] tier={self.tier} obligations={n_ob} discharged={n_pr} "
              f"bounded_evals={sum(b['evaluations'] for b in self.bounded.values())} "
              f"violations={len(self.violations)} known={len(self.known_hits)} undecided={len(self.undecided)} "
              f"wall={wall:.1f}s")
        if self.violations:
            return 1
        if self.undecided:
            for u in self.undecided[:20]:
                print("  UNDECIDED:", u)
            return 2
        if n_ob == 0 and not self.bounded:
            print("  checker error: zero obligations and no bounded suite")
            return 3
        return 0
