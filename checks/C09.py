"""C09 - see DESIGN.md section 5/C09.  Deductive clause groups (pyvc) + bounded suite (rtc)."""
from checks import mcheck
from contracts import lattice_vc as V
from rtc import suites

RULE = 'cases are a deterministic function of VERIF_SEED and the case number: small planar maps (2-5 nodes on the half-integer grid {0..4}^2; chain, one-way chain, cycle, star, grid, line, random edge sets, one-way feeders merging into one node; duplicated node locations and self-listed neighbours included; string, 1-based and 0-based integer labels), per suite also: a one-way block driven around more than once, feeders plus a linked parallel road, 3x3 / 4x4 street grids with sparse traces (non-emitting chains of depth >= 2); traces of 1-5 observations on the quarter grid (walks along the map with noise, on-road, sparse, outliers, repeats, random); one case in five first matches ANOTHER trace on the same matcher object; one trace in five carries time stamps as a third component (x, y, t); configurations over both matcher families, edge-only / node-and-edge states, noise in {0.09,.5,.55,1,2}, max_dist, max_dist_init, min_prob_norm, non-emitting on/off, width in {None,1,2,3}, avoid_goingback; histories of match / extend / widen (/ continue_with_distance where the suite says so)'

SPEC = {
    'level': 'other',
    'explanation': 'Deductive local clauses: next/first establish key fields, single predecessor = the entry called on, monotone score, emitting-state count, score <= 0 (class invariant); update never lowers a live score and keeps the filing key; upsert files under (obs_ne, key) and nowhere else; prune changes delayed only. Bounded: well_formed(lattice) after every public call over operation histories.',
    'assumptions': ['clauses that relate an entry to an in-place updated predecessor are global: bounded only'],
    'deductive': [
        ('K-next(invariant clauses)', 'next', '^(inv:|fields:(length|obs|prev|delayed)|score:monotone)'),
        ('K-first', 'first', '^(inv:|fields:no-pred)'),
        ('K-update', 'update', '^(inv:|update:slot-complete\\[(obs|obs_ne|length|prev)\\])'),
        ('K-upsert(filing)', 'upsert', '^upsert:'),
        ('K-prune(frame)', 'prune', 'prune:(delayed-frame|scores-and-stop|loop-.*untouched)'),
        ("non-emitting search files candidates under their own key in (column, depth)", 'ne_inner', r'^(file:|ne-inner:(layer|nothing|only-live))'),
        ("_match_non_emitting_states_end(the emitting layer of the next column is written ONLY through upsert: an entry that successors point to is improved in place, never swapped for another object)", 'ne_end', r'^ne-end:(next-column-written|at-most-one-upsert|upsert-into)'),
        ("increase_max_lattice_width touches the lattice only through one expansion round of match (no write to the lattice, the round counter or the early-stop index of its own; round bookkeeping is match's: one increment per call)", 'widen', r'^widen:(lattice-and-round|frame-only|matching-continued|expansion-round|match-called-on)')],
    'bounded': [
        ('well-formed-after-histories', suites.case_C09, 1500, 200000, RULE + '; ' + 'non-trivial = history of >= 2 operations (match, extend, widen, continue_with_distance after an early stop)', 'histories <= 4 operations')],
}


def run(tier, seed, only=None):
    return mcheck.run_property('C09', tier, seed, only, SPEC)


def replay(path):
    return mcheck.replay_generic('C09', path, {s[0]: s[1] for s in SPEC['bounded']})
