"""C12 - map backends are interchangeable."""
from checks import mcheck
from contracts import maps as M
from rtc import map_suites

SPEC = {
    'level': 'other',
    'explanation': "Contract-based deduction cannot decide SQL: the bodies of the SqliteMap accessors are query strings executed by an external engine. Deductive part (small): both map classes select their metric through the same BaseMap setter (one consistent quintuple of callables). Bounded (deciding part): per accessor an abstract-view contract evaluated on both backends loaded with the same integer-labelled graph (size, labels, coordinates, neighbours without the in-memory self entry, edge neighbours, full edge listing, bounding box, box-restricted node listing) and the same edge-based matcher with unbounded initial radius on either.",
    'assumptions': ["SQLite itself", "edge ids: collisions are searched on one large import per run (birthday bound, see the edge-identity suite) and at labels around zero, not excluded for all label sets",
                    "duplicate entries of a neighbour list are compared as sets"],
    'deductive': [("BaseMap.use_latlon setter / __init__ (shared metric selection)", 'setter', r'.'),
                  ("in-memory side of the abstract-view contract: InMemMap.nodes_nbrto, InMemMap.edges_nbrto and the default BaseMap.edges_nbrto return exactly what the abstract view of the graph says (sound and complete, with the map's locations, nothing written) - the SQLite side of the same contract is SQL and stays bounded", 'inmem_nbrs', r'(^nbrs:|^enbrs:|no-raise)')],
    'bounded': [
        ('same-graph-in-both-backends', map_suites.case_C12, 600, 20000,
         "integer-labelled graphs of 3-6 nodes incl. self-listed neighbours and one-way edges, planar (75%) or lat-lon; SQLite map filled in bulk, "
         "edge by edge, with deferred commit/index, import-style or by two bulk loads; a third of the maps are queried, extended through add_node/add_edge on both "
         "backends and queried again; 2 boxes cutting the node set; non-trivial = >= 3 distinct coordinates", "graphs <= 6 nodes")],
    'extra_builders': {'setter': lambda prog, tier: [M.vc_use_latlon_setter(prog, v) for v in (True, False, None, 1, 0)] +
                                                    [M.vc_basemap_init(prog, v) for v in (True, False)]},
}


SPEC['post'] = [map_suites.edge_identity_suite]


def run(tier, seed, only=None):
    return mcheck.run_property('C12', tier, seed, only, SPEC)


def replay(path):
    return mcheck.replay_generic('C12', path, {s[0]: s[1] for s in SPEC['bounded']})
