"""C18 - a stored map is the same map when opened again."""
from checks import mcheck
from contracts import maps as M
from rtc import map_suites

SPEC = {
    'level': 'other',
    'explanation': "Deductive: InMemMap.serialize -> (pickle identity, assumed) -> deserialize: the real constructor receives every stored field under the parameter of the same meaning (name, graph, use_latlon, use_rtree, index_edges, crs_lonlat, crs_xy, linked_edges, dir) and the metric callables follow the flag; SqliteMap.read_properties under Python's attribute semantics (the data descriptor use_latlon beats the instance dict): after reading the properties table the flag is visible through the property and selects the metric, crs/name restored, also with duplicate rows of earlier sessions. Bounded: build histories (bulk / single / deferred commit+index / mixed) then 1-3 reopen cycles, original vs reopened through every public query and the raw tables; pickle cycles likewise.",
    'assumptions': ["SQLite durability and pickle are trusted", "SqliteMap.__init__ around read_properties (order of defaults and save_properties) is covered by the bounded suite"],
    'deductive': [("InMemMap.serialize->deserialize(field round trip)", 'roundtrip', r'.'),
                  ("SqliteMap.read_properties(descriptor semantics)", 'readprops', r'.'),
                  ("BaseMap.use_latlon setter", 'setter', r'.')],
    'bounded': [
        ('build-histories-then-reopen-cycles', map_suites.case_C18, 500, 20000,
         "graphs of 3-6 integer-labelled nodes at unit / 1e7 / degree scale, both metric flags, default or custom CRS settings, seven build histories (bulk, single, "
         "deferred, mixed, un-indexed bulk insert as last write, import-style, two bulk loads), settings changed and saved after creation (also there and back), "
         "1-3 reopen cycles; non-trivial = deferred commit/index step or use_latlon=False", "graphs <= 6 nodes, <= 3 cycles")],
    'extra_builders': {
        'roundtrip': lambda prog, tier: [M.vc_inmem_roundtrip(prog, u, d) for u in (True, False) for d in (True, False)],
        'readprops': lambda prog, tier: [M.vc_read_properties(prog, s, i, d) for s in (True, False) for i in (True, False) for d in (False, True)],
        'setter': lambda prog, tier: [M.vc_use_latlon_setter(prog, v) for v in (True, False)]},
}


SPEC['post'] = [map_suites.cross_process_suite]


def run(tier, seed, only=None):
    return mcheck.run_property('C18', tier, seed, only, SPEC)


def replay(path):
    return mcheck.replay_generic('C18', path, {s[0]: s[1] for s in SPEC['bounded']})
