"""C05 - see DESIGN.md section 5/C05.  Deductive clause groups (pyvc) + bounded suite (rtc)."""
from checks import mcheck
from contracts import lattice_vc as V
from rtc import suites, geo_suites

RULE = 'cases are a deterministic function of VERIF_SEED and the case number: small planar maps (2-5 nodes on the half-integer grid {0..4}^2; chain, one-way chain, cycle, star, grid, line, random edge sets, one-way feeders merging into one node; duplicated node locations and self-listed neighbours included; string, 1-based and 0-based integer labels), per suite also: a one-way block driven around more than once, feeders plus a linked parallel road, 3x3 / 4x4 street grids with sparse traces (non-emitting chains of depth >= 2); traces of 1-5 observations on the quarter grid (walks along the map with noise, on-road, sparse, outliers, repeats, random); one case in five first matches ANOTHER trace on the same matcher object; one trace in five carries time stamps as a third component (x, y, t); configurations over both matcher families, edge-only / node-and-edge states, noise in {0.09,.5,.55,1,2}, max_dist, max_dist_init, min_prob_norm, non-emitting on/off, width in {None,1,2,3}, avoid_goingback; histories of match / extend / widen (/ continue_with_distance where the suite says so)'

SPEC = {
    'level': 'other',
    'explanation': 'Deductive: do_stop is exactly (normalised log-probability < minimum or distance > maximum, both strict); next/first hand it the score normalised by the NEW length and the distance of the one metric call selected by the (node/edge x observation/segment) case with arguments in the documented order, store the projection outputs in the right slots, and return a non-stopped entry only within both cut-offs. Bounded: cut-offs and nearest-point/true-distance on every state of the best path against an own computation.',
    'assumptions': ['K-metric (nearest point, true distance) is proved for the planar module in C13 and bounded for the lat-lon module in C14'],
    'deductive': [
        ('K-stop(exact)', 'do_stop', '.'),
        ('K-next(cut-offs, stop flag, metric wiring)', 'next', '^(cutoff:|stop:|wiring:(one-metric|metric))'),
        ('K-first(cut-offs)', 'first', '^(cutoff:|stop:|fields:dist_obs)'),
        ("_create_start_nodes(max_dist_init goes to the spatial query; distance, projection and relative position go unchanged into the start state)", 'start_nodes', r'^start:(spatial|one-first)'),
        ("BaseMatcher.__init__(the thresholds are the caller's: max_dist or unbounded, max_dist_init or max_dist, log(min_prob_norm) or unbounded)", 'matcher_init', r'^init:(max_dist|min_logprob)')],
    'bounded': [
        ('cutoffs-and-nearest-points', suites.case_C05, 1500, 200000, RULE + '; ' + 'one case in six is a road with a missing link: match, continue_with_distance (half of them with an explicit jump radius of 5 x max_dist), match again in expansion mode - the cut-offs hold for the states reached by the jump as well; non-trivial = some candidate was cut off or the path has >= 2 states', ''),
        ('cutoffs-and-nearest-points(lat-lon)', geo_suites.case_C05_latlon, 1500, 100000,
         'universe maps and traces placed at 10 m per grid unit at 7 anchors (|lat| < 60), one case in five at regional scale (20 km per grid unit: links of 10-100 km, fixes kilometres off), half of the others with fixes a few decimetres from a node; lat-lon metric, cut-offs in '
         'metres; every emitting state of the best path against an independent spherical reference (12 cm + 1e-6); non-trivial = path with >= 2 states', '')],
}


def run(tier, seed, only=None):
    return mcheck.run_property('C05', tier, seed, only, SPEC)


def replay(path):
    return mcheck.replay_generic('C05', path, {s[0]: s[1] for s in SPEC['bounded']})
