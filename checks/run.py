"""Entry point: bin/check <Cxx> [--tier quick|thorough] [--replay FILE]"""
import argparse
import importlib
import os
import sys
import traceback


def main():
    ap = argparse.ArgumentParser()
    ap.add_argument('pid')
    ap.add_argument('--tier', default=os.environ.get('VERIF_TIER', 'quick'), choices=['quick', 'thorough'])
    ap.add_argument('--replay', default=None)
    ap.add_argument('--only', default=None, help='restrict to obligation groups / suites matching this regex')
    a = ap.parse_args()
    seed = int(os.environ.get('VERIF_SEED', '0') or 0)
    from checks import common
    common.assert_repo_package()
    try:
        mod = importlib.import_module(f"checks.{a.pid}")
    except ModuleNotFoundError:
        print(f"checker error: no check for {a.pid}")
        sys.exit(3)
    try:
        if a.replay:
            rc = mod.replay(a.replay)
        else:
            rc = mod.run(a.tier, seed, a.only)
    except SystemExit:
        raise
    except Exception:
        traceback.print_exc()
        print(f"checker error in {a.pid}")
        sys.exit(3)
    sys.exit(rc)


if __name__ == '__main__':
    main()
