"""C11 - spatial queries return exactly what lies within the radius."""
from checks import mcheck
from contracts import maps as M
from rtc import map_suites

SPEC = {
    'level': 'other',
    'explanation': "Deductive (InMemMap, no index): foreach rule over the scanned graph with the generator _items_in_bb inlined as a coroutine: for an ARBITRARY node the appended tuples equal `[(distance, label, coord)] if distance < max_dist else []` (soundness, tuple contents, and completeness including the box pre-filter, from the planar box/distance contracts of C13), same per (node, neighbour) for edges with (dist, a, ca, b, cb, pi, ti) of the point-to-segment contract; the result is sorted once after the scan and truncated to max_elmt after sorting; (y,x,time) locations included. Bounded: both backends (InMemMap, SqliteMap) and both metrics against an exhaustive scan at unit scale, ~1e7 and in degrees; the SQL halves are only covered here.",
    'assumptions': ["list.sort: ascending tuple order (assumed)", "SQL semantics of SqliteMap.all_nodes / all_edges: external engine, bounded only",
                    "lat-lon box and distances: C14 (bounded)", "self-loop edges are left unspecified (the two backends disagree on listing them)"],
    'deductive': [
        ("InMemMap.nodes_closeto(foreach: exact set, tuples, pre-filter complete, sort, truncate)", 'inmem_nodes', r'.'),
        ("InMemMap.edges_closeto(foreach: exact set per scanned start node, tuples, sort, truncate)", 'inmem_edges', r'.')],
    'bounded': [
        ('both-backends-vs-exhaustive-scan', map_suites.case_C11, 900, 20000,
         "integer-labelled graphs of 3-6 nodes (random/grid/chain/cycle/star, optional long edge with both ends far away) at unit scale, "
         "~1e7 ('projected metres') and in degrees (lat-lon metric, 7 anchors incl. southern hemisphere and two that straddle the antimeridian); large-radius "
         "lat-lon queries (2-100 km, |lat| <= 69.65) with nodes 10 cm inside the rim at the extreme-longitude and cardinal points and chord edges through the disc "
         "with both ends outside; SQLite filled in bulk, edge by edge, deferred, import-style (indexes rebuilt at the end) or by two bulk loads; a third of the "
         "maps are queried, extended by add_node/add_edge and queried again with the same arguments; 3 queries per case: location on/near the "
         "map (optionally with a time component), radius in {0,.3,1,2.5,50}*unit, max_elmt in {None,1,3}; lat-lon edge answers also against an independent "
         "3-D reference; non-trivial = some node or edge lies within the radius",
         "graphs <= 6 nodes")],
    'extra_builders': {
        'inmem_nodes': lambda prog, tier: [M.vc_inmem_closeto(prog, 'nodes', me, tr) for me in (True, False) for tr in (False, True)],
        'inmem_edges': lambda prog, tier: [M.vc_inmem_closeto(prog, 'edges', me, tr) for me in (True, False) for tr in (False, True)]},
}


def run(tier, seed, only=None):
    return mcheck.run_property('C11', tier, seed, only, SPEC)


def replay(path):
    return mcheck.replay_generic('C11', path, {s[0]: s[1] for s in SPEC['bounded']})
