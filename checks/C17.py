"""C17 - see DESIGN.md section 5/C17.  Deductive clause groups (pyvc) + bounded suite (rtc)."""
from checks import mcheck
from contracts import lattice_vc as V
from rtc import suites

RULE = 'cases are a deterministic function of VERIF_SEED and the case number: small planar maps (2-5 nodes on the half-integer grid {0..4}^2; chain, one-way chain, cycle, star, grid, line, random edge sets, one-way feeders merging into one node; duplicated node locations and self-listed neighbours included; string, 1-based and 0-based integer labels), per suite also: a one-way block driven around more than once, feeders plus a linked parallel road, 3x3 / 4x4 street grids with sparse traces (non-emitting chains of depth >= 2); traces of 1-5 observations on the quarter grid (walks along the map with noise, on-road, sparse, outliers, repeats, random); one case in five first matches ANOTHER trace on the same matcher object; one trace in five carries time stamps as a third component (x, y, t); configurations over both matcher families, edge-only / node-and-edge states, noise in {0.09,.5,.55,1,2}, max_dist, max_dist_init, min_prob_norm, non-emitting on/off, width in {None,1,2,3}, avoid_goingback; histories of match / extend / widen (/ continue_with_distance where the suite says so)'

SPEC = {
    'level': 'other',
    'explanation': 'Deductive: no raise statement of next/first/update/upsert/prune/logprob_* is reachable (guards `logprob_trans > 0`, `logprob_obs > 0`, `new_logprob > self.logprob`, asserts) given the callee contracts; transition/emission results are <= 0. Bounded: totality of match() on valid input incl. observations on roads/nodes, repeats, both metrics; (y,x,time) triples == pairs.',
    'assumptions': ['recursion depth: CPython default recursion limit 1000, at most 200 frames used by the caller and by the call chain above _node_in_prev_ne', "scipy's float behaviour is external: bounded only", 'float rounding of the guards is covered by the bounded suite (noise values with known 1-ulp excess included)'],
    'deductive': [
        ('no-raise(next)', 'next_noprune', 'no-raise'),
        ('K-trans/K-obs(proper probabilities)', 'trans', 'proper-probability'),
        ('K-obs', 'obs', 'proper-probability'),
        ('no-raise(update)', 'update', 'no-raise|update:returns'),
        ("match(no exception except the documented one; the trace is stored as given; a call without expand starts round 0 whatever the matcher did before - a stale round number makes _create_start_nodes keep the lattice of the previous trace)", 'match', r'^(no-raise|init:(fresh|round-reset)|result:is-a-pair)'),
        ("_match_non_emitting_states(the depth counter never exceeds the bound)", 'ne_levels', r'^levels:(body-entered|depth-counter)'),
        ("_node_in_prev_ne(recursion depth bounded by the non-emitting depth, under the lattice invariant)", 'visited', r'^visited:'),
        ("BaseMatcher.__init__(default depth bound leaves stack headroom: bound + 200 <= 1000)", 'ne_depth', r'^depth:')],
    'bounded': [
        ('totality-and-triples', suites.case_C17, 1500, 200000, RULE + '; ' + 'non-trivial = non-empty match; each case also with (y,x,time) triples and placed on the sphere (lat-lon metric); one map in five is the map after purge() / del_node(): a node is gone, the neighbour lists still name it; plus search discs that end at a pole (own suite)', '')],
}


def _next_noprune(prog, tier):
    # keep infeasible `raise` paths so that their unreachability is an explicit obligation
    import pyvc.verify as pv
    orig = pv.verify_function
    out = []
    def vf(*a, **k):
        k['prune'] = False
        return orig(*a, **k)
    V.verify_function = vf
    try:
        for fam in ('base', 'distance'):
            for mpt in (True, False):
                for opt in (True, False):
                    out.append(V.vc_next(prog, fam, mpt, opt, False, False))
    finally:
        V.verify_function = orig
    return out


SPEC['extra_builders'] = {'next_noprune': _next_noprune}


def long_chain(chk, tier, seed):
    """bounded: one road digitised as a very long chain of short segments between two fixes (the non-emitting search must stop
    at its depth bound, not at the interpreter's recursion limit)"""
    import logging
    from leuvenmapmatching.map.inmem import InMemMap
    from leuvenmapmatching.matcher.simple import SimpleMatcher
    from leuvenmapmatching.matcher.distance import DistanceMatcher
    logging.getLogger("be.kuleuven.cs.dtai.mapmatching").setLevel(logging.ERROR)
    n = 1300
    runs = [(SimpleMatcher, True)] if tier == 'quick' else [(SimpleMatcher, True), (SimpleMatcher, False), (DistanceMatcher, True)]
    for cls, only_edges in runs:
        mp = InMemMap('chain', use_latlon=False, use_rtree=False, index_edges=False,
                      graph={i: ((0.0, float(i)), [i + 1] if i + 1 < n else []) for i in range(n)})
        kw = dict(max_dist=None, max_dist_init=3, obs_noise=2, non_emitting_states=True, max_lattice_width=None)
        if cls is SimpleMatcher:
            kw['only_edges'] = only_edges
        mt = cls(mp, **kw)
        try:
            res = mt.match([(0.2, 0.4), (0.2, n - 1.5)])
            ok = isinstance(res, tuple) and len(res) == 2
            if not ok:
                chk.violation(key='C17:result-is-not-a-(list,index)-pair', text=f"{cls.__name__} on a chain of {n} nodes returned {res!r}",
                              replay={'kind': 'bounded', 'suite': 'long-chain', 'nodes': n, 'matcher': cls.__name__})
        except Exception as e:
            chk.violation(key=f'C17:match-raised-{type(e).__name__}', text=f"{cls.__name__}(only_edges={only_edges}) on one road of {n} short segments with two fixes raised {type(e).__name__}",
                          replay={'kind': 'bounded', 'suite': 'long-chain', 'nodes': n, 'matcher': cls.__name__, 'only_edges': only_edges, 'error': repr(e)[:300]})
    chk.bounded_suite('long-chain(two fixes far apart on one road of 1300 segments)', len(runs), len(runs), [{'nodes': n}],
                      'a straight one-way chain of 1300 nodes one unit apart, fixes next to the first and the last-but-one segment, non-emitting states on, no cut-offs', '')


from rtc import geo_suites as _GS
SPEC['post'] = [long_chain, _GS.polar_suite]


def run(tier, seed, only=None):
    return mcheck.run_property('C17', tier, seed, only, SPEC)


def replay(path):
    return mcheck.replay_generic('C17', path, {s[0]: s[1] for s in SPEC['bounded']})
