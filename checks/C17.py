"""C17 - see DESIGN.md section 5/C17.  Deductive clause groups (pyvc) + bounded suite (rtc)."""
from checks import mcheck
from contracts import lattice_vc as V
from rtc import suites

RULE = 'cases are a deterministic function of VERIF_SEED and the case number: small planar maps (2-5 nodes on the half-integer grid {0..4}^2; chain, one-way chain, cycle, star, grid, line, random edge sets; duplicates and self-listed neighbours included), traces of 1-5 observations on the quarter grid (walks along the map with noise, on-road, sparse, outliers, repeats, random), configurations over both matcher families, edge-only / node-and-edge states, noise in {0.09,.5,.55,1,2}, max_dist, max_dist_init, min_prob_norm, non-emitting on/off, width in {None,1,2,3}, avoid_goingback'

SPEC = {
    'level': 'other',
    'explanation': 'Deductive: no raise statement of next/first/update/upsert/prune/logprob_* is reachable (guards `logprob_trans > 0`, `logprob_obs > 0`, `new_logprob > self.logprob`, asserts) given the callee contracts; transition/emission results are <= 0. Bounded: totality of match() on valid input incl. observations on roads/nodes, repeats, both metrics; (y,x,time) triples == pairs.',
    'assumptions': ["scipy's float behaviour is external: bounded only", 'float rounding of the guards is covered by the bounded suite (noise values with known 1-ulp excess included)'],
    'deductive': [
        ('no-raise(next)', 'next_noprune', 'no-raise'),
        ('K-trans/K-obs(proper probabilities)', 'trans', 'proper-probability'),
        ('K-obs', 'obs', 'proper-probability'),
        ('no-raise(update)', 'update', 'no-raise|update:returns'),
        ("match(no exception except the documented one; the trace is stored as given)", 'match', r'^(no-raise|init:fresh|result:is-a-pair)')],
    'bounded': [
        ('totality-and-triples', suites.case_C17, 1500, 25000, RULE + '; ' + 'non-trivial = non-empty match; each case also with (y,x,time) triples and placed on the sphere (lat-lon metric)', '')],
}


def _next_noprune(prog, tier):
    # keep infeasible `raise` paths so that their unreachability is an explicit obligation
    import pyvc.verify as pv
    orig = pv.verify_function
    out = []
    def vf(*a, **k):
        k['prune'] = False
        return orig(*a, **k)
    V.verify_function = vf
    try:
        for fam in ('base', 'distance'):
            for mpt in (True, False):
                for opt in (True, False):
                    out.append(V.vc_next(prog, fam, mpt, opt, False, False))
    finally:
        V.verify_function = orig
    return out


SPEC['extra_builders'] = {'next_noprune': _next_noprune}


def run(tier, seed, only=None):
    return mcheck.run_property('C17', tier, seed, only, SPEC)


def replay(path):
    return mcheck.replay_generic('C17', path, {s[0]: s[1] for s in SPEC['bounded']})
