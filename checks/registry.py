"""What is claimed, per property (source of MANIFEST.json; regenerate with bin/mkmanifest.py)."""
NOTES = ("Technique family: contract-based deductive verification of the real code (sidecar contracts + own VC generator over the "
         "Python AST, z3/cvc5 back ends). Bounded run-time contract checks stand in where deduction does not reach; they are "
         "labelled bounded in every evidence file and never counted as proved. See DESIGN.md.")
A_COMMON = ("A1 floats as reals; pyvc interpreter and its models of builtins (pyvc/models.py ASSUMED list); z3/cvc5 soundness; "
            "Python subset semantics as stated in DESIGN.md section 3")
CHECKS = [
    {"property_id": "C13", "category": "other",
     "technique": "contract-based deductive verification (pyvc VCs over the real AST, z3) + exact-rational bounded falsifier",
     "text": "Every path of distance, project, distance_point_to_segment, distance_segment_to_segment and box_around_point is symbolically "
             "executed over the reals; postconditions are the C13 statement (on-segment, range, true distance, minimality as KKT sign "
             "conditions + convexity lemma re-proved each run, box contains disc). All clauses are discharged except a named set of "
             "minimality clauses of the segment-segment routine that no installed solver decides (attempted, tolerated as unknown, "
             "carried by an exact-rational bounded falsifier); hence 'other', not 'proof'.",
     "note": A_COMMON + "; numpy isclose/allclose model (atol 1e-8); inside the absolute-tolerance band (|cross| <= 1e-8 or segment "
             "shorter than 1e-8 per coordinate) only the shape is claimed (known finding F5b); project()/distance() are inlined into the "
             "segment-segment proof in the generic region"},
]
NOT_APPLICABLE = {}
