"""C01 - see DESIGN.md section 5/C01.  Deductive clause groups (pyvc) + bounded suite (rtc)."""
from checks import mcheck
from contracts import lattice_vc as V
from rtc import suites

RULE = 'cases are a deterministic function of VERIF_SEED and the case number: small planar maps (2-5 nodes on the half-integer grid {0..4}^2; chain, one-way chain, cycle, star, grid, line, random edge sets, one-way feeders merging into one node; duplicated node locations and self-listed neighbours included; string, 1-based and 0-based integer labels), per suite also: a one-way block driven around more than once, feeders plus a linked parallel road, 3x3 / 4x4 street grids with sparse traces (non-emitting chains of depth >= 2); traces of 1-5 observations on the quarter grid (walks along the map with noise, on-road, sparse, outliers, repeats, random); one case in five first matches ANOTHER trace on the same matcher object; one trace in five carries time stamps as a third component (x, y, t); configurations over both matcher families, edge-only / node-and-edge states, noise in {0.09,.5,.55,1,2}, max_dist, max_dist_init, min_prob_norm, non-emitting on/off, width in {None,1,2,3}, avoid_goingback; histories of match / extend / widen (/ continue_with_distance where the suite says so)'

SPEC = {
    'level': 'other',
    'explanation': 'Deductive: keep-the-better update/upsert (every slot from the winner, ties keep the stored entry), emitting score arithmetic and stop rule of next/first, exact do_stop, transition models do not read anything but the previous state when avoid_goingback is off. Bounded: match() against a depth-first enumeration of ALL admissible walks (spec written from the statement).',
    'assumptions': ['composition lemma (Viterbi/Bellman induction from the per-function contracts to whole-lattice optimality) is manual; the system-level statement is bounded', "node-and-edge mode: edge states whose projection falls on an end point are not states (code rule 'too close to end') - the spec enumerates walks over the same state space"],
    'deductive': [
        ('K-update(keep-the-better)', 'update', '^update:'),
        ('K-upsert', 'upsert', '^upsert:'),
        ('K-next(emitting score, stop rule)', 'next', '^(score:emitting|stop:|cutoff:|fields:(length|prev|obs))'),
        ('K-first', 'first', '^(score:|stop:|cutoff:|wiring:)'),
        ('K-stop', 'do_stop', '.'),
        ('K-trans(first-order models)', 'trans', '^trans:formula'),
        ("_match_states(complete successor generation per live predecessor: foreach rule)", 'match_states', r'^(cover:|select:|insert:)'),
        ("_create_start_nodes(one first() per spatial-query tuple, arguments unchanged, every candidate filed once)", 'start_nodes', r'^start:'),
        ("_build_node_path(final entry = most probable live entry; loop invariant over a column of arbitrary size)", 'final_choice', r'.'),
        ("match('the longest prefix some admissible walk can explain': the stop rule - previous column without a live entry - is evaluated for EVERY observation in EVERY call, also when a matched trace is continued; the result is built from the column before the stop)", 'match', r'^(loop:(runs-over|early-stop|continues)|result:)'),
        ("neighbour queries of the in-memory map are COMPLETE against the abstract view of the graph (every listed node with a location is returned, one edge per listed neighbour of the end node / per declared link): no walk of the graph is withheld from the search", 'inmem_nbrs', r'(^nbrs:complete|^enbrs:complete|^nbrs:iterates|no-raise)')],
    'bounded': [
        ('all-walks-optimum', suites.case_C01, 1500, 200000, RULE + '; ' + 'non-trivial = at least 2 observations explainable and at least 2 edges; emitting-only, no width pruning, avoid_goingback off', 'graphs <= 5 nodes, traces <= 4 observations (enumeration is exponential)')],
}


def run(tier, seed, only=None):
    return mcheck.run_property('C01', tier, seed, only, SPEC)


def replay(path):
    return mcheck.replay_generic('C01', path, {s[0]: s[1] for s in SPEC['bounded']})
