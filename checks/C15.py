"""C15 - latitude-longitude matching agrees with planar matching."""
import z3
from checks import mcheck
from contracts import maps as M
from pyvc.verify import FnReport
from rtc import geo_suites


def _purity(prog, tier):
    rep = FnReport('matcher-modules(geometry purity)')
    rep.obligations = M.purity_obligations(prog)
    rep.path_pcs = [('ret', [])]
    return [(prog.func(M.MBASE, 'BaseMap.__init__'), rep)]


SPEC = {
    'level': 'other',
    'explanation': "Deduction cannot decide the agreement itself (a tolerance statement between two transcendental floating-point computations composed through the whole matcher). Deductive, structural part: BaseMap.use_latlon setter assigns the five metric callables from ONE module (lat-lon iff the flag is truthy) and __init__ routes through it; the matcher modules obtain every geometric quantity through self.map.* (syntactic obligations: no import of a metric module, no metric call on another receiver, no own distance arithmetic). Bounded, deciding part: match() on a lat-lon map vs the locally projected planar map with the same parameters in metres (same index, best log-probability within 2e-3 relative).",
    'assumptions': ["knife-edge rule: cases in which an observation projects within 1e-6 onto an edge end point or two consecutive observations project to the same relative position are counted as excluded (the strict `ti < prev.ti` penalty test flips)",
                    "equirectangular local projection around the map's anchor; street scale (10-250 m per grid unit), |lat| < 60"],
    'deductive': [("metric selection (setter, __init__)", 'setter', r'.'), ("geometry purity of the matcher modules (syntactic)", 'purity', r'.')],
    'bounded': [('latlon-vs-projected-planar', geo_suites.case_C15, 6000, 120000,
                 "universe maps/traces placed at 7 anchors (|lat| <= 59, several longitudes; one case in nine straddles the antimeridian or the prime meridian) at 10-250 m per grid unit; "
                 "a quarter with a duplicated node (zero-length edge), a quarter with decimetre geometry (fixes a few decimetres from a node, fixes that hardly move); "
                 "a quarter of the integer-labelled cases on SqliteMaps (both sides; node and edge states), the others on in-memory maps; "
                 "emitting-only, no cut-offs, both families; non-trivial = non-empty match on a map with >= 3 nodes", "")],
    'extra_builders': {'setter': lambda prog, tier: [M.vc_use_latlon_setter(prog, v) for v in (True, False, None, 1, 0)] + [M.vc_basemap_init(prog, v) for v in (True, False)],
                       'purity': _purity},
}


def run(tier, seed, only=None):
    return mcheck.run_property('C15', tier, seed, only, SPEC)


def replay(path):
    return mcheck.replay_generic('C15', path, {s[0]: s[1] for s in SPEC['bounded']})
