"""C13 - planar geometry primitives are exact.  Deductive (pyvc) over the real source of
leuvenmapmatching/util/dist_euclidean.py; counter-models are replayed on the real functions."""
import json
import math
import re
import random
import z3
from fractions import Fraction as Fr

from checks.common import Check
from pyvc.interp import Program, Obligation
from pyvc.verify import verify_function, witness_cover
from pyvc import solve, models
from pyvc.values import to_z3
from contracts import geom_planar as G
from rtc import geom_oracle as O

MOD = G.MOD
R = z3.Real


def P(nm):
    return (R(nm + 'x'), R(nm + 'y'))


def P3(nm):
    """a point that carries a time stamp as third component (an observation of a timed trace): the geometry is that of the
    first two components"""
    return (R(nm + 'x'), R(nm + 'y'), R(nm + 'time'))


def mval(model, name, default=0.0):
    v = (model or {}).get(name)
    if v is None:
        return default
    try:
        if '/' in v:
            a, b = v.split('/')
            return int(a) / int(b)
        return float(v)
    except Exception:
        return default


def mpt(model, nm):
    return (mval(model, nm + 'x'), mval(model, nm + 'y'))


def mptt(model, nm):
    """the point as the obligation had it: with its time stamp when the scenario is a timed one"""
    if (model or {}).get(nm + 'time') is not None:
        return mpt(model, nm) + (mval(model, nm + 'time'),)
    return mpt(model, nm)


def _w(**k):
    out = {}
    for nm, (x, y) in k.items():
        out[nm + 'x'], out[nm + 'y'] = x, y
    return out


WITNESS = {
    'distance': _w(p1=(0, 0), p2=(3, 4)),
    'project': dict(_w(s1=(0, 0), s2=(2, 0), p=(1, 1)), delta=0),
    'distance_point_to_segment': dict(_w(q=(1, 1), a1=(0, 0), a2=(2, 0)), delta=0),
    'distance_segment_to_segment@generic[n>tol]': _w(f1=(0, 0), f2=(1, 0), t1=(2, -1), t2=(2, 1)),
    'distance_segment_to_segment@generic[n<-tol]': _w(f1=(0, 0), f2=(1, 0), t1=(2, 1), t2=(2, -1)),
    'distance_segment_to_segment@exactly-parallel': _w(f1=(0, 0), f2=(1, 0), t1=(0, 1), t2=(2, 1)),
    'distance_segment_to_segment@tolerance-band': _w(f1=(0, 0), f2=(1, 0), t1=(0, 1), t2=(1, '100000001/100000000')),
    'box_around_point': dict(_w(c=(1, 2)), r=3),
}


# ------------------------------------------------------------------------------------------ pure lemmas
def lemma_obligations():
    """L-kkt / L-proj: KKT sign conditions of the convex quadratic imply global minimality on the box.
    Pure mathematics (no code); re-proved on every run so that they are not assumptions."""
    obs = []
    f1, f2, t1, t2 = P('f1'), P('f2'), P('t1'), P('t2')
    a0, b0, a, b = R('a0'), R('b0'), R('a'), R('b')
    u, v = G.sub(f2, f1), G.sub(t2, t1)

    def D(aa, bb):
        return G.dist2(G.lerp(f1, f2, aa), G.lerp(t1, t2, bb))
    w = G.sub(G.lerp(f1, f2, a0), G.lerp(t1, t2, b0))
    ga, gb = G.dot(w, u), -G.dot(w, v)
    da, db = a - a0, b - b0
    S = G.sq(da * u[0] - db * v[0]) + G.sq(da * u[1] - db * v[1])
    obs.append(Obligation('L-kkt::taylor-identity', [], D(a, b) - D(a0, b0) == 2 * ga * da + 2 * gb * db + S, 'lemma'))
    box = [a0 >= 0, a0 <= 1, b0 >= 0, b0 <= 1, a >= 0, a <= 1, b >= 0, b <= 1]
    g, d0, d1 = R('g'), R('x0'), R('x1')
    obs.append(Obligation('L-kkt::sign-product', [d0 >= 0, d0 <= 1, d1 >= 0, d1 <= 1,
                                                  z3.Implies(d0 > 0, g <= 0), z3.Implies(d0 < 1, g >= 0)],
                          g * (d1 - d0) >= 0, 'lemma'))
    Pa, Pb, Sv = R('Pa'), R('Pb'), R('S')
    obs.append(Obligation('L-kkt::conclusion', [Pa >= 0, Pb >= 0, Sv >= 0, R('D1') - R('D0') == 2 * Pa + 2 * Pb + Sv],
                          R('D1') >= R('D0'), 'lemma'))
    x, y = R('sx'), R('sy')
    obs.append(Obligation('L-kkt::square-nonneg', [], x * x + y * y >= 0, 'lemma'))
    # 1-D analogue for project
    s1, s2, p = P('s1'), P('s2'), P('p')
    t0, t = R('t0'), R('t')
    d = G.sub(s2, s1)
    gg = G.dot(G.sub(G.lerp(s1, s2, t0), p), d)
    obs.append(Obligation('L-proj::taylor-identity', [],
                          G.dist2(G.lerp(s1, s2, t), p) - G.dist2(G.lerp(s1, s2, t0), p)
                          == 2 * gg * (t - t0) + (t - t0) * (t - t0) * (d[0] * d[0] + d[1] * d[1]), 'lemma'))
    return obs


# ------------------------------------------------------------------------------------------ per function
def build(prog, tier):
    """Returns list of (group, FnReport, replayer)."""
    out = []
    callee = dict(G.CALLEE)

    # ---- distance
    fv = prog.func(MOD, 'distance')
    p1, p2 = P('p1'), P('p2')
    rep = verify_function(prog, fv, lambda ctx, it: ([p1, p2], {}),
                          lambda ctx, res: G.distance_post(p1, p2, to_z3(res)), contracts={}, name='distance')
    out.append(('distance', fv, rep, replay_distance))
    q1, q2 = P3('p1'), P3('p2')
    rep = verify_function(prog, fv, lambda ctx, it: ([q1, q2], {}),
                          lambda ctx, res: G.distance_post(p1, p2, to_z3(res)), contracts={}, name='distance[timed-points]')
    out.append(('distance[timed-points]', fv, rep, replay_distance))

    # ---- project (functional spec for all delta in [0, 1/2]; strict C13 statement for delta = 0)
    fv = prog.func(MOD, 'project')
    s1, s2, p, delta = P('s1'), P('s2'), P('p'), R('delta')

    def setup(ctx, it):
        ctx.assume(delta >= 0, 2 * delta <= 1)
        return [s1, s2, p], {'delta': delta}

    def goals(ctx, res):
        pt_, t = res        # the degenerate branch returns s1 itself: with a time stamp when s1 carries one
        px, py = pt_[0], pt_[1]
        res = ((to_z3(px), to_z3(py)), to_z3(t))
        gl = G.project_post(s1, s2, p, delta, res)
        band = G.seg_band(s1, s2)
        for nm, g in G.project_strict_goals(s1, s2, p, delta, res):
            gl.append((f"strict[{nm}]@outside-band", z3.Implies(z3.And(delta == 0, z3.Not(band)), g)))
            gl.append((f"strict[{nm}]@tolerance-band", z3.Implies(z3.And(delta == 0, band), g)))
        # epsilon form inside the band: the whole segment is shorter than 1.5e-8, the result lies on it
        eps = z3.RealVal('3/200000000')
        gl.append(('eps[on-tiny-segment]@tolerance-band',
                   z3.Implies(band, z3.And(res[0][0] == s1[0], res[0][1] == s1[1], G.dist2(s1, s2) <= eps * eps))))
        return gl
    rep = verify_function(prog, fv, setup, goals, contracts={}, name='project')
    out.append(('project', fv, rep, replay_project))
    s1t, s2t, pt = P3('s1'), P3('s2'), P3('p')
    rep = verify_function(prog, fv, lambda ctx, it: (ctx.assume(delta >= 0, 2 * delta <= 1), ([s1t, s2t, pt], {'delta': delta}))[1],
                          goals, contracts={}, name='project[timed-points]')
    out.append(('project[timed-points]', fv, rep, replay_project))

    # ---- distance_point_to_segment (callee contracts for project and distance)
    fv = prog.func(MOD, 'distance_point_to_segment')
    q, a1, a2 = P('q'), P('a1'), P('a2')

    def setup2(ctx, it):
        ctx.assume(delta >= 0, 2 * delta <= 1)
        return [q, a1, a2], {'delta': delta}

    def goals2(ctx, res):
        dist, pi, ti = res
        res = (to_z3(dist), (to_z3(pi[0]), to_z3(pi[1])), to_z3(ti))
        gl = G.p2s_post(q, a1, a2, delta, res)
        band = G.seg_band(a1, a2)
        for nm, g in G.project_strict_goals(a1, a2, q, delta, (res[1], res[2])):
            gl.append((f"strict[{nm}]@outside-band", z3.Implies(z3.And(delta == 0, z3.Not(band)), g)))
            gl.append((f"strict[{nm}]@tolerance-band", z3.Implies(z3.And(delta == 0, band), g)))
        return gl
    rep = verify_function(prog, fv, setup2, goals2, contracts={k: v for k, v in callee.items()
                                                              if k.endswith(('.project', '.distance'))},
                          name='distance_point_to_segment')
    out.append(('distance_point_to_segment', fv, rep, replay_p2s))

    # ---- distance_segment_to_segment, verified per region of n = cross(f2-f1, t2-t1)
    fv = prog.func(MOD, 'distance_segment_to_segment')
    f1, f2, t1, t2 = P('f1'), P('f2'), P('t1'), P('t2')
    reg = G.s2s_regions(f1, f2, t1, t2)

    def mk_goals(region):
        def goals3(ctx, res):
            d, pf, ptt, uf, ut = res
            res = (to_z3(d), (to_z3(pf[0]), to_z3(pf[1])), (to_z3(ptt[0]), to_z3(ptt[1])), to_z3(uf), to_z3(ut))
            if region == 'tolerance-band' or any(n == 'project-degenerate-branch' for n in ctx.notes):
                # nothing but the shape is claimed inside the absolute-tolerance band (finding F5b)
                return [('shape@tolerance-band', z3.And(res[0] >= 0, res[3] >= 0, res[3] <= 1, res[4] >= 0, res[4] <= 1))]
            return [(f"strict[{nm}]@{region}", g) for nm, g in G.s2s_strict_goals(f1, f2, t1, t2, res)]
        return goals3

    def mk_setup(region):
        def setup(ctx, it):
            ctx.assume(reg[region])
            return [f1, f2, t1, t2], {}
        return setup

    def project_returned(it, fv_, args, kw, rv):
        if rv is not None and not z3.is_expr(rv[1]):
            # project() took its |delta| <= 1e-8 branch; with |n| > 1e-8 the segment is not exactly degenerate: band
            it.ctx.notes.append('project-degenerate-branch')
    # generic region (|n| > 1e-8; the path condition of project() decides whether a segment is in the band):
    # project() and distance() are inlined (their real source is interpreted in place) and min/max/isclose are split
    # into paths, so that every query is a conjunction of polynomial constraints (nlsat-friendly).
    n_ = G.s2s_n(f1, f2, t1, t2)
    # quick tier: the n > tol half only (the other sign is the mirror image and is verified in the thorough tier)
    for sign, cond in (('n>tol', n_ > G.TOL), ('n<-tol', -n_ > G.TOL))[:1 if tier == 'quick' else 2]:
        rep = verify_function(prog, fv, (lambda c: (lambda ctx, it: (ctx.assume(c), ([f1, f2, t1, t2], {}))[1]))(cond),
                              mk_goals('generic'), contracts={}, hooks={('return', 'project'): project_returned},
                              name=f'distance_segment_to_segment@generic[{sign}]', prune=True, feas_timeout=500,
                              split_minmax=True)
        out.append((f'distance_segment_to_segment@generic[{sign}]', fv, rep, replay_s2s))
    # parallel / degenerate region and the tolerance band: project() and distance() through their contracts
    cc = {k: v for k, v in callee.items() if k.endswith(('.project', '.distance'))}
    rep = verify_function(prog, fv, mk_setup('exactly-parallel'), mk_goals('exactly-parallel'), contracts=cc,
                          name='distance_segment_to_segment@exactly-parallel', prune=True, feas_timeout=500)
    out.append(('distance_segment_to_segment@exactly-parallel', fv, rep, replay_s2s))
    rep = verify_function(prog, fv, mk_setup('tolerance-band'), mk_goals('tolerance-band'), contracts=cc,
                          name='distance_segment_to_segment@tolerance-band', prune=True, feas_timeout=500)
    out.append(('distance_segment_to_segment@tolerance-band', fv, rep, replay_s2s))

    # ---- box_around_point
    fv = prog.func(MOD, 'box_around_point')
    c, r = P('c'), R('r')

    def goals4(ctx, res):
        res = tuple(to_z3(x) for x in res)
        return G.box_post(c, r, res) + [('contains-disc', G.box_contains_disc_goal(ctx, c, r, res))]
    rep = verify_function(prog, fv, lambda ctx, it: ([c, r], {}), goals4, contracts={}, name='box_around_point')
    out.append(('box_around_point', fv, rep, replay_box))
    return out


# ------------------------------------------------------------------------------------------ replay on real code
def _real():
    from leuvenmapmatching.util import dist_euclidean as de
    return de


def replay_distance(r):
    de = _real()
    a, b = mptt(r.model, 'p1'), mptt(r.model, 'p2')
    got = de.distance(a, b)
    exp = math.hypot(a[0] - b[0], a[1] - b[1])
    return (not O.approx(got, exp)), {'inputs': [a, b], 'actual': got, 'expected': exp}


def replay_project(r):
    de = _real()
    s1, s2, p = mptt(r.model, 's1'), mptt(r.model, 's2'), mptt(r.model, 'p')
    delta = mval(r.model, 'delta')
    res = de.project(s1, s2, p, delta=delta)
    info = {'inputs': {'s1': s1, 's2': s2, 'p': p, 'delta': delta}, 'actual': res}
    if delta == 0:
        d = math.hypot(res[0][0] - p[0], res[0][1] - p[1])
        bad = O.check_p2s(p, s1, s2, (d, res[0], res[1]))
        info['failed_clauses'] = bad
        return bool(bad), info
    return False, info


def replay_p2s(r):
    de = _real()
    q, a1, a2 = mpt(r.model, 'q'), mpt(r.model, 'a1'), mpt(r.model, 'a2')
    delta = mval(r.model, 'delta')
    res = de.distance_point_to_segment(q, a1, a2, delta=delta)
    info = {'inputs': {'p': q, 's1': a1, 's2': a2, 'delta': delta}, 'actual': res}
    if delta == 0:
        bad = O.check_p2s(q, a1, a2, res)
        info['failed_clauses'] = bad
        return bool(bad), info
    return False, info


def replay_s2s(r):
    de = _real()
    f1, f2, t1, t2 = (mpt(r.model, n) for n in ('f1', 'f2', 't1', 't2'))
    try:
        res = de.distance_segment_to_segment(f1, f2, t1, t2)
    except Exception as e:
        return True, {'inputs': [f1, f2, t1, t2], 'raised': repr(e)}
    bad = O.check_s2s(f1, f2, t1, t2, res)
    return bool(bad), {'inputs': [f1, f2, t1, t2], 'actual': res, 'failed_clauses': bad,
                       'expected_distance': math.sqrt(float(O.seg_seg_dist2(f1, f2, t1, t2)))}


def replay_box(r):
    de = _real()
    c, rad = mpt(r.model, 'c'), mval(r.model, 'r')
    box = de.box_around_point(c, rad)
    bad = []
    for k in range(360):
        qx, qy = c[0] + rad * math.cos(math.radians(k)) * 0.999999, c[1] + rad * math.sin(math.radians(k)) * 0.999999
        if not (box[0] <= qx <= box[2] and box[1] <= qy <= box[3]):
            bad.append((qx, qy))
    return bool(bad), {'inputs': [c, rad], 'actual': box, 'outside': bad[:3]}


# ------------------------------------------------------------------------------------------ bounded falsifier
def falsifier(chk, seed, n):
    """Random + structured replay of the strict clauses on the real functions (bounded; never counted as proved).
    Also the home of the witness corpus of the findings."""
    de = _real()
    rnd = random.Random(seed)
    cases = []
    corpus = [((0, 0), (1, 0), (2, 0), (3, 0)), ((0, 0), (-2, 0), (-1.5, 6.1e-5), (-3, 6.1e-5)),
              ((0, 0), (4, 0), (1, 1), (3, 1)), ((0, 0), (0, 0), (1, 1), (2, 2)), ((0, 0), (2, 2), (0, 2), (2, 0)),
              ((0, 0), (1, 1), (1, 1), (2, 0)), ((0, 0), (2, 0), (1, 0), (3, 0)), ((0, 0), (1, 0), (0, 1), (1, 1)),
              ((0, 0), (2, 0), (1, 1), (1, 3)), ((0, 0), (0, 2), (0, 1), (0, 1))]
    grid = [0, 0.5, 1, 1.5, 2, 3]
    for _ in range(n):
        kind = rnd.random()
        if kind < 0.4:
            pts = [(rnd.choice(grid), rnd.choice(grid)) for _ in range(4)]
        elif kind < 0.6:
            # parallel by construction, with decimal coordinates that binary floats do not represent exactly: the cross
            # product of the directions is rounding noise (about 1e-16), not 0
            f1 = (rnd.randint(0, 200) / 10, rnd.randint(0, 200) / 10)
            dv = (rnd.randint(-99, 99) / 10, rnd.randint(-99, 99) / 10)
            if dv == (0.0, 0.0):
                dv = (0.3, 0.7)
            off = (rnd.randint(-50, 50) / 10, rnd.randint(-50, 50) / 10)
            lam = rnd.choice([1, 1, 0.5, 2, 0.3, -1])
            f2 = (f1[0] + dv[0], f1[1] + dv[1])
            t1 = (f1[0] + off[0], f1[1] + off[1])
            t2 = (t1[0] + lam * dv[0], t1[1] + lam * dv[1])
            pts = [f1, f2, t1, t2]
        elif kind < 0.7:
            # one segment ALMOST axis-parallel: its two end points differ by a few units in the last place (0.3 vs 0.1 + 0.2,
            # a projected coordinate with rounding noise) in one coordinate, the other segment is long in that coordinate and
            # its line meets the line of the first inside or beyond it.  Formulas that divide by that tiny extent are unstable.
            x3 = rnd.choice([0.3, 2.0, 10.1, 621000.3, -47.7])
            x4 = x3 + rnd.choice([1, 2, 5, 50, 1000]) * math.ulp(x3) * rnd.choice([1, -1])
            y3 = rnd.randint(-40, 40) / 10
            y4 = y3 + rnd.choice([0.5, 1.0, 2.5, -1.5])
            a_, b_ = rnd.uniform(0.5, 50), rnd.uniform(0.5, 50)
            yc = rnd.choice([y3 - 1.5, y3 + 0.25 * (y4 - y3), y4 + 0.5, y4 + 4.0])       # where f crosses the line of t
            sl = rnd.uniform(-0.5, 0.5)
            f1, f2 = (x3 - a_, yc - sl * a_), (x3 + b_, yc + sl * b_)
            t1, t2 = (x3, y3), (x4, y4)
            sw_ = rnd.random() < 0.5
            pts = [f1, f2, t1, t2] if rnd.random() < 0.5 else [t1, t2, f1, f2]
            if sw_:
                pts = [(p_[1], p_[0]) for p_ in pts]
        else:
            s = 10 ** rnd.uniform(-3, 4)
            pts = [(rnd.uniform(-s, s), rnd.uniform(-s, s)) for _ in range(4)]
        cases.append(tuple(pts))
    nontriv, fails = 0, 0
    seen = set()
    for c in corpus + cases:
        f1, f2, t1, t2 = c
        if c in seen:
            continue
        seen.add(c)
        try:
            res = de.distance_segment_to_segment(f1, f2, t1, t2)
            bad = O.check_s2s(f1, f2, t1, t2, res)
        except Exception as e:
            res, bad = repr(e), ['raised']
        n_ = (t2[1] - t1[1]) * (f2[0] - f1[0]) - (t2[0] - t1[0]) * (f2[1] - f1[1])
        region = 'exactly-parallel' if n_ == 0 else ('tolerance-band' if abs(n_) <= 1e-8 else 'generic')
        if region == 'tolerance-band' and bad and not isinstance(res, str):
            # finding F5b covers what the absolute 1e-8 tolerance can do: treating a nearly parallel pair as parallel moves the
            # result by at most about 1e-8 / (shorter length).  A gross error in the band is something else.
            try:
                true_d = math.sqrt(float(O.seg_seg_dist2(f1, f2, t1, t2)))
                lmin = min(math.hypot(f2[0] - f1[0], f2[1] - f1[1]), math.hypot(t2[0] - t1[0], t2[1] - t1[1]))
                scale_ = max(abs(float(c_)) for p_ in c for c_ in p_)
                if abs(res[0] - true_d) > 1e-6 * (1 + scale_) + (1e-7 / lmin if lmin > 0 else 0):
                    region = 'rounding-noise-in-the-parallel-test(gross-error)'
            except Exception:
                pass
        if f1 != f2 and t1 != t2:
            nontriv += 1
        if bad:
            fails += 1
            chk.violation(key=f"bounded:distance_segment_to_segment:{region}:{','.join(bad)}",
                          text=f"distance_segment_to_segment{c} -> {res}: failed {bad}",
                          replay={'kind': 'bounded', 'function': 'distance_segment_to_segment', 'inputs': c,
                                  'actual': res, 'failed_clauses': bad, 'region': region})
        # point-to-segment on the same data
        res2 = de.distance_point_to_segment(f1, t1, t2)
        bad2 = O.check_p2s(f1, t1, t2, res2)
        band = (abs(t1[0] - t2[0]) <= 1e-8 and abs(t1[1] - t2[1]) <= 1e-8 and t1 != t2)
        if bad2:
            fails += 1
            chk.violation(key=f"bounded:distance_point_to_segment:{'tolerance-band' if band else 'generic'}:{','.join(bad2)}",
                          text=f"distance_point_to_segment({f1},{t1},{t2}) -> {res2}: failed {bad2}",
                          replay={'kind': 'bounded', 'function': 'distance_point_to_segment', 'inputs': [f1, t1, t2],
                                  'actual': res2, 'failed_clauses': bad2})
        # the same point-segment case with time stamps as third component of every point (observations of a timed trace, e.g.
        # the chord between two observations): the geometry is that of the first two components
        tt = [rnd.choice([0.0, 5.0, 1.6e9, 37.5]) + k_ * rnd.choice([1.0, 5.0, 60.0]) for k_ in range(3)]
        f1t, t1t, t2t = f1 + (tt[1],), t1 + (tt[0],), t2 + (tt[2],)
        try:
            res3 = de.distance_point_to_segment(f1t, t1t, t2t)
            bad3 = O.check_p2s(f1, t1, t2, res3)
            pr3 = de.project(t1t, t2t, f1t, delta=0.0)
            if not bad3 and (abs(pr3[1] - res3[2]) > 1e-12 or not O.approx(de.distance(f1t, t1t), math.hypot(f1[0] - t1[0], f1[1] - t1[1]))):
                bad3 = ['project-or-distance-with-time-stamps']
        except Exception as e:
            res3, bad3 = repr(e), ['raised']
        if bad3 and not bad2:
            fails += 1
            chk.violation(key=f"bounded:timed-points:{'tolerance-band' if band else 'generic'}:{','.join(bad3)}",
                          text=f"distance_point_to_segment({f1t},{t1t},{t2t}) -> {res3}: failed {bad3} (the same points without time stamps pass)",
                          replay={'kind': 'bounded', 'function': 'distance_point_to_segment', 'inputs': [f1t, t1t, t2t],
                                  'actual': res3, 'failed_clauses': bad3})
    chk.bounded_suite('geometry-falsifier', len(seen) * 3, nontriv, [list(map(list, c)) for c in corpus[:2] + cases[:2]],
                      rule='segment pairs from the half-integer grid (parallel, collinear, touching, crossing, zero-length '
                           'occur by construction), parallel pairs with one-decimal coordinates (not exactly representable: cross product is rounding noise) '
                           'segments that are axis-parallel up to a few units in the last place crossed (or passed) by a long one, and log-uniform random scales 1e-3..1e4, seeded by VERIF_SEED; each pair '
                           'also gives one point-segment case, evaluated a second time with time stamps as third component of all three points; non-trivial = both segments have positive length; results compared '
                           'with an exact rational reference', bounds=f"{len(seen)} distinct segment pairs")


def engine_crosscheck(chk, reps, seed, n):
    """The symbolic engine against CPython (trusted-base check, part of every run): for concrete inputs on the quarter grid
    (exact in floats) the real function is executed by CPython; with the inputs substituted into the engine's path conditions
    exactly the path CPython took must be feasible and the engine's symbolic result must equal CPython's (1e-9)."""
    from pyvc.verify import crosscheck
    de = _real()
    rnd = random.Random(seed + 17)
    pt = lambda: (rnd.randint(-16, 16) / 4, rnd.randint(-16, 16) / 4)
    named = lambda **k: [(R(nm + ax), v[i]) for nm, v in k.items() for i, ax in enumerate('xy')]
    tally = {}
    bad = []
    for _ in range(n):
        a, b, c, d = pt(), pt(), pt(), pt()
        rr = rnd.randint(0, 8) / 2
        nn = (d[1] - c[1]) * (b[0] - a[0]) - (d[0] - c[0]) * (b[1] - a[1])
        runs = [('distance', named(p1=a, p2=b), de.distance(a, b)),
                ('project', named(s1=a, s2=b, p=c) + [(R('delta'), 0)], de.project(a, b, c)),
                ('distance_point_to_segment', named(q=c, a1=a, a2=b) + [(R('delta'), 0)], de.distance_point_to_segment(c, a, b)),
                ('box_around_point', named(c=a) + [(R('r'), rr)], de.box_around_point(a, rr))]
        g = 'distance_segment_to_segment@generic[n>tol]' if nn > 1e-8 else \
            ('distance_segment_to_segment@generic[n<-tol]' if nn < -1e-8 else 'distance_segment_to_segment@exactly-parallel')
        if g in reps:
            runs.append((g, named(f1=a, f2=b, t1=c, t2=d), de.distance_segment_to_segment(a, b, c, d)))
        for grp, inp, want in runs:
            if grp not in reps:
                continue
            st, det = crosscheck(reps[grp], inp, want)
            tally[(grp, st)] = tally.get((grp, st), 0) + 1
            if st in ('mismatch', 'no-path'):
                bad.append(f"{grp} on {[(str(k), v) for k, v in inp]}: {st} {det}"[:400])
    chk.extra['engine_crosscheck_vs_cpython'] = {f"{g}:{st}": k for (g, st), k in sorted(tally.items())}
    if bad:
        chk.undecided.append("engine cross-check against CPython failed (the symbolic executor disagrees with the interpreter it models): " + bad[0])


# ------------------------------------------------------------------------------------------ entry points
def run(tier, seed, only=None):
    chk = Check('C13', tier, seed, level='other')
    chk.explanation = ("Contract-based deductive verification of the five planar primitives: every path of the real source is "
                       "symbolically executed (reals), postconditions are the C13 statement (on-segment, range, true distance, "
                       "minimality as KKT sign conditions + the L-kkt convexity lemma proved on each run).")
    chk.assume(*models.ASSUMED)
    chk.trusted_base = ["pyvc symbolic interpreter (this repository, /verif/pyvc)", "z3 5.1 / cvc5 1.0.3 / z3 4.8.12",
                        "A1 reals-for-floats", "numpy isclose/allclose model (atol 1e-8)"]
    prog = Program()
    prog.load(MOD)
    timeout = 20000 if tier == 'quick' else 160000
    lem = solve.discharge(lemma_obligations(), timeout_ms=timeout)
    chk.record(lem, 'lemmas(L-kkt,L-proj)')
    total_paths = 0
    reps = {}
    for group, fv, rep, replayer in build(prog, tier):
        reps[group] = rep
        chk.add_function(prog.span(fv))
        if rep.unsupported:
            chk.undecided.append(f"{group}: unsupported construct(s): {sorted(set(rep.unsupported))[:3]}")
        if not rep.obligations:
            chk.undecided.append(f"{group}: zero obligations generated")
        total_paths += rep.paths
        # vacuity: a concrete witness input must reach a returning path with all assumptions satisfiable
        wit = WITNESS.get(group)
        if wit is not None:
            pid = witness_cover(rep, [(R(k), v) for k, v in wit.items()])
            chk.canaries.append((f"{group}::witness-reaches-a-returning-path", pid is not None))
            if pid is None:
                chk.undecided.append(f"{group}: vacuity check failed - witness {wit} reaches no returning path")
        # minimality (KKT) clauses of the segment-segment routine: attempted with a short budget (a refutation is
        # found quickly when the code is wrong); z3/cvc5 do not decide all of them on the unchanged tree (nonlinear,
        # 11 variables), so `unknown` there is tolerated, not counted, and carried by the exact-rational falsifier.
        hard = r"distance_segment_to_segment@.*::strict\[kkt-[ft]\]"
        short = 2500 if tier == 'quick' else 120000
        res = solve.discharge(rep.obligations, timeout_ms=timeout,
                              budget=lambda ob: short if re.search(hard, ob.name) else timeout)
        chk.record(res, group, replayer=replayer, tolerate_unknown=hard)
        chk.notes.append(f"{group}: paths={rep.paths} returning={rep.returning} raising={rep.raising}")
    falsifier(chk, seed, 2000 if tier == "quick" else 40000)
    engine_crosscheck(chk, reps, seed, 12 if tier == 'quick' else 150)
    chk.extra['paths_explored'] = total_paths
    return chk.finish()


def replay(path):
    data = json.load(open(path))
    print(json.dumps(data, indent=1)[:3000])
    de = _real()
    if data.get('kind') == 'bounded' and data.get('function') == 'distance_segment_to_segment':
        c = [tuple(x) for x in data['inputs']]
        res = de.distance_segment_to_segment(*c)
        bad = O.check_s2s(*c, res)
        print('replayed on current tree:', res, 'failed clauses:', bad)
        return 1 if bad else 0
    return 0
