"""C07 - see DESIGN.md section 5/C07.  Deductive clause groups (pyvc) + bounded suite (rtc)."""
from checks import mcheck
from contracts import lattice_vc as V
from rtc import suites

RULE = 'cases are a deterministic function of VERIF_SEED and the case number: small planar maps (2-5 nodes on the half-integer grid {0..4}^2; chain, one-way chain, cycle, star, grid, line, random edge sets, one-way feeders merging into one node; duplicated node locations and self-listed neighbours included; string, 1-based and 0-based integer labels), per suite also: a one-way block driven around more than once, feeders plus a linked parallel road, 3x3 / 4x4 street grids with sparse traces (non-emitting chains of depth >= 2); traces of 1-5 observations on the quarter grid (walks along the map with noise, on-road, sparse, outliers, repeats, random); one case in five first matches ANOTHER trace on the same matcher object; one trace in five carries time stamps as a third component (x, y, t); configurations over both matcher families, edge-only / node-and-edge states, noise in {0.09,.5,.55,1,2}, max_dist, max_dist_init, min_prob_norm, non-emitting on/off, width in {None,1,2,3}, avoid_goingback; histories of match / extend / widen (/ continue_with_distance where the suite says so)'

SPEC = {
    'level': 'other',
    'explanation': 'Deductive: LatticeColumn.prune for a layer of ARBITRARY size (array model, inductive invariants for the tie-extension and threshold loops, foreach rule for the two assignment loops): kept entries are exactly a prefix of the live entries sorted by decreasing score, no postponed entry beats a kept one, every tie with the W-th is kept and only ties extend the width, threshold semantics, delayed changes only >E -> E inside and <=E -> E+1 outside, nothing else changes, small layers untouched. update copies delayed from the winner. Bounded: expanded-set monitor, pruned vs unpruned, widening sequences, large width = unpruned.',
    'assumptions': ['sorted(): assumed contract (same entries, ordered by the key)', 'list comprehension returns exactly the elements satisfying its filter'],
    'deductive': [
        ('K-prune', 'prune', '.'),
        ('K-update(delayed copied from winner)', 'update', '^update:slot-complete\\[delayed\\]'),
        ('K-next(delayed inherited)', 'next', '^fields:delayed'),
        ("_match_states(expanded = live entries due in this round)", 'match_states', r'^select:'),
        ("non-emitting search continues only entries due in this round", 'ne_inner', r'^ne-inner:only-live'),
        ("the link from a non-emitting level to the next observation expands only entries due in this round (a postponed candidate is not expanded)", 'ne_end', r'^ne-end:only-live'),
        ("match(with a width the new column is re-pruned at the end of every step)", 'match', r'^loop:(new-column|no-pruning)'),
        ("increase_max_lattice_width(the new width is stored before the matching continues; exactly one call of match on the stored trace as an expansion round; result = result of match; nothing but the width is written)", 'widen', r'^widen:(?!unique|tqdm)'),
        ("_match_non_emitting_states(level loop: first level = live entries due in this round; the WHOLE level - postponed entries included - is continued at the next depth; the search stops only at an empty level or the depth bound; pruning of the layer and of the next column in every level)", 'ne_levels', r'(^levels:|^select:|::inv-(init|preserved)::)')],
    'bounded': [
        ('pruned-vs-unpruned-and-widening', suites.case_C07, 1500, 200000, RULE + '; ' + 'non-trivial = at least one candidate was postponed', '')],
}


def run(tier, seed, only=None):
    return mcheck.run_property('C07', tier, seed, only, SPEC)


def replay(path):
    return mcheck.replay_generic('C07', path, {s[0]: s[1] for s in SPEC['bounded']})
