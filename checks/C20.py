"""C20 - path interpolation densifies without moving anything."""
from checks import mcheck
from contracts import interp_path as IP
from rtc import geo_suites

SPEC = {
    'level': 'other',
    'explanation': "Deductive (planar interpolate_path, symbolic path of arbitrary length): outer foreach over an arbitrary consecutive pair, inner counted loop with the inductive invariant (px,py) = p1 + i (dx,dy): the first point is kept, every original end point is appended after its insertions, a pair is left unsubdivided only if it is at most dd apart, every inserted point is p1 + s (p2 - p1) with s = (i+1)/dt in (0,1], consecutive insertions are one step apart and a step is at most dd (ceil axioms), no division by zero. Bounded: both metrics, 1-6 points, spacings 1e-3..10 x the longest leg, repeated points; lat-lon insertions against a great-circle reference.",
    'assumptions': ["math.ceil model (k-1 < x <= k)", "lat-lon variant: bounded only (inserted points within 1 cm of the great-circle arc, ordered, gaps <= dd)"],
    'deductive': [("planar interpolate_path (foreach + loop invariant)", 'planar', r'.')],
    'bounded': [('both-metrics-vs-reference', geo_suites.case_C20, 2000, 300000,
                 "1-6 points; planar coordinates in [-50,50]^2; lat-lon legs 1 m .. 60 km at 9 anchors, one case in five with legs of 300 .. 9000 km, one leg in four axis-aligned (exactly the same latitude, or exactly the same longitude, as in gridded traces), one case in seven a high-rate trace with fixes 3 cm .. 1 m apart (checked in the local tangent plane to 0.1 mm); one planar case in three hands the trace in as a float array, a list of arrays or a list of lists (checked against a copy taken before the call); non-trivial = at least one leg subdivided", "")],
    'extra_builders': {'planar': lambda prog, tier: [IP.vc_interpolate_planar(prog)]},
}


def run(tier, seed, only=None):
    return mcheck.run_property('C20', tier, seed, only, SPEC)


def replay(path):
    return mcheck.replay_generic('C20', path, {s[0]: s[1] for s in SPEC['bounded']})
